import Cfdm.Driver.Parse
import Cfdm.Model.Subsample
import Cfdm.Model.SubsampleIx
import Cfdm.Model.SubsampleParam
import Cfdm.Model.SubsampleRead
import Cfdm.Driver.C16Geo
/-
Driver for C16.

  C16.r1 m=linear|quadratic b=0|1 n=N t=[…] den=D scale=L tp=[row;row;…] w=[row;row;…]|-
      one subsampled dimension; one row of tie points (and of `w`) per combination of the
      non-interpolated dimensions; tie point / w values are the integers given divided by D
      → shape=[R,N] (b=1: [R,N,2]) data=[…]   every value multiplied by L, `--` = masked
  C16.r2 b=0|1 n0=… n1=… t0=[…] t1=[…] den=D scale=L tp=[row;…]
      two subsampled dimensions (bi_linear); each row is the row-major (len t0 × len t1) matrix
      → shape=[R,N0,N1] (b=1: [R,N0,N1,4]) data=[…]
      instead of `w=`: wp=[flat data] ws=[shape] wd=[parameter_dimensions] xs=[sizes of the
      non-interpolated tie point dimensions] pos=P (position of the subsampled dimension in the tie
      point array): the parameter as stored, conformed and selected by the model
      (`raised:ValueError` when the selection is empty)
  C16.g1 / C16.g2   as r1 / r2 plus xs=[…] and ix=[sel;sel;…] over the canonical dimensions
      (non-interpolated…, subsampled…, [bounds]); sel = s:start:stop:step (`_` = None) | l:i,j,…
      → shape=[…] data=[…] of `SubsampledArray.__getitem__(ix)`
  C16.rd dims=[…] tpm=[tokens] sizes=[name:size,…] pv=[term=var=dim,dim;…] b=0|1 ci=[tokens]
      → what the reader hands to SubsampledArray: shape, tie point indices, parameter dimensions
  C16.sub t=[…]    → the per-subarea bookkeeping (level-2 intermediate)
-/
namespace Cfdm.Driver.C16
open Cfdm.Driver Cfdm.Subsample Cfdm.PySlice

def parseRow (s : String) : Option (List Int) :=
  if s.isEmpty then some [] else (splitOnChar s ',').mapM parseInt?

def parseRows (s : String) : Option (List (List Int)) := do
  let inner ← stripBrackets s
  (splitOnChar inner ';').mapM parseRow

def parseBool (s : String) : Option Bool :=
  if s == "1" then some true else if s == "0" then some false else none

def showRat (L : Nat) (q : Rat) : String :=
  let x := q * (L : Rat)
  if x.den == 1 then toString x.num else s!"{x.num}/{x.den}"

def showOpt (L : Nat) : Option Rat → String
  | none => "--"
  | some q => showRat L q

def showCell (L : Nat) (k : Nat) : Option (List Rat) → List String
  | none => List.replicate k "--"
  | some c => c.map (showRat L)

def toRat (den : Nat) (x : Int) : Rat := (x : Rat) / (den : Rat)

def chunk {α} (k : Nat) : Nat → List α → List (List α)
  | 0, _ => []
  | n + 1, l => l.take k :: chunk k n (l.drop k)

/-- All multi-indices of the non-interpolated dimensions (row-major = canonical row order),
each widened to tie point dimension order with a dummy at the subsampled position(s). -/
def rowIndices (xs : List Nat) (poss : List Nat) : List (List Nat) :=
  (Cfdm.Arr.allIdx xs).map (fun e => poss.foldl (fun l p => l.take p ++ 0 :: l.drop p) e)

structure R1Args where
  m : String
  b : Bool
  n : Nat
  t : List Nat
  scale : Nat
  tp : List (List Rat)
  /-- per row: the coefficients per subarea; `none` = no parameter; inner `none` = empty selection -/
  w : List (Option (Option (List Rat)))

def parseR1 (kv : KV) : Option R1Args := do
  let m ← kv.get? "m"
  let b ← parseBool (← kv.get? "b")
  let n ← (← kv.get? "n").toNat?
  let t ← parseNatList (← kv.get? "t")
  let den ← (← kv.get? "den").toNat?
  let scale ← (← kv.get? "scale").toNat?
  let tp ← parseRows (← kv.get? "tp")
  if den == 0 || scale == 0 then none
  if !(tp.all (fun r => r.length == t.length)) then none
  if m != "linear" && m != "quadratic" then none
  let tpr := tp.map (fun r => r.map (toRat den))
  match kv.get? "wp" with
  | some wpS =>
    -- the parameter as stored
    if m == "linear" then none
    let wp ← parseRow ((← stripBrackets wpS))
    let ws ← parseNatList (← kv.get? "ws")
    let wd ← parseNatList (← kv.get? "wd")
    let xs ← parseNatList (← kv.get? "xs")
    let pos ← (← kv.get? "pos").toNat?
    if ws.length != wd.length then none
    if wp.length != ws.foldl (· * ·) 1 then none
    if pos > xs.length then none
    let rows := rowIndices xs [pos]
    if rows.length != tp.length then none
    let D := xs.length + 1
    let tpShape := (xs.take pos) ++ t.length :: (xs.drop pos)
    let P := ofFlat ws (wp.map (toRat den))
    let nsub := (subs t).length
    some { m, b, n, t, scale, tp := tpr,
           w := rows.map (fun e => some (paramRow true D wd P tpShape pos nsub e)) }
  | none =>
    let wS ← kv.get? "w"
    let w ← if wS == "-" then some none else (parseRows wS).map some
    if m == "linear" && w.isSome then none
    match w with
    | some ws =>
      if ws.length != tp.length then none
      some { m, b, n, t, scale, tp := tpr, w := ws.map (fun r => some (some (r.map (toRat den)))) }
    | none => some { m, b, n, t, scale, tp := tpr, w := tp.map (fun _ => none) }

def r1Method (a : R1Args) (r : Nat) : Option Method :=
  if a.m == "linear" then some linearM
  else match a.w.getD r none with
    | none => some (quadraticM none)
    | some none => none
    | some (some l) => some (quadraticM (some l))

def runR1 (kv : KV) : String :=
  match parseR1 kv with
  | none => "bad-op"
  | some a =>
    match (List.range a.tp.length).mapM (r1Method a) with
    | none => "raised:ValueError"
    | some Fs =>
      let rows := (List.range a.tp.length).map (fun r =>
        let tpr := a.tp.getD r []
        let F := Fs.getD r linearM
        if a.b then (recon1b F a.n a.t tpr).flatMap (showCell a.scale 2)
        else (recon1 F a.n a.t tpr).map (showOpt a.scale))
      let shape := if a.b then [a.tp.length, a.n, 2] else [a.tp.length, a.n]
      s!"shape={showNatList shape} data=[{String.intercalate "," rows.flatten}]"

def runR2 (kv : KV) : String :=
  match (do
    let b ← parseBool (← kv.get? "b")
    let n0 ← (← kv.get? "n0").toNat?
    let n1 ← (← kv.get? "n1").toNat?
    let t0 ← parseNatList (← kv.get? "t0")
    let t1 ← parseNatList (← kv.get? "t1")
    let den ← (← kv.get? "den").toNat?
    let scale ← (← kv.get? "scale").toNat?
    let tp ← parseRows (← kv.get? "tp")
    if den == 0 || scale == 0 then none
    if !(tp.all (fun r => r.length == t0.length * t1.length)) then none
    some (b, n0, n1, t0, t1, den, scale, tp)) with
  | none => "bad-op"
  | some (b, n0, n1, t0, t1, den, scale, tp) =>
    let rows := tp.map (fun r =>
      let m := chunk t1.length t0.length (r.map (toRat den))
      if b then ((recon2b n0 n1 t0 t1 m).flatMap (fun row => row.flatMap (showCell scale 4)))
      else ((recon2 n0 n1 t0 t1 m).flatMap (fun row => row.map (showOpt scale))))
    let shape := if b then [tp.length, n0, n1, 4] else [tp.length, n0, n1]
    s!"shape={showNatList shape} data=[{String.intercalate "," rows.flatten}]"

/-! ### `__getitem__` -/

def parseSel (s : String) : Option Sel :=
  match splitOnChar s ':' with
  | ["s", a, b, c] => do some (.slice (← parseOptInt? a) (← parseOptInt? b) (← parseOptInt? c))
  | ["l", l] => if l.isEmpty then some (.list []) else ((splitOnChar l ',').mapM parseInt?).map .list
  | _ => none

def parseSels (s : String) : Option (List Sel) := do
  let inner ← stripBrackets s
  if inner.isEmpty then some [] else (splitOnChar inner ';').mapM parseSel

/-- The selected rows (flat indices, product order) for the selectors of the non-interpolated
dimensions. -/
def selRows (xs : List Nat) (xsel : List Sel) : List Nat :=
  let pos := (List.zip xs xsel).map (fun (n, s) => (s.positions n).map Int.toNat)
  let rec prod : List (List Nat) → List (List Nat)
    | [] => [[]]
    | l :: ls => l.flatMap (fun i => (prod ls).map (fun r => i :: r))
  (prod pos).map (Cfdm.Arr.ravel xs)

def runG1 (kv : KV) : String :=
  match (do
    let a ← parseR1 kv
    let xs ← parseNatList (← kv.get? "xs")
    let ix ← parseSels (← kv.get? "ix")
    if ix.length != xs.length + 1 + (if a.b then 1 else 0) then none
    if xs.foldl (· * ·) 1 != a.tp.length then none
    if !((List.zip (xs ++ [a.n] ++ (if a.b then [2] else [])) ix).all (fun (n, s) => s.wf n)) then none
    some (a, xs, ix)) with
  | none => "bad-op"
  | some (a, xs, ix) =>
    match (List.range a.tp.length).mapM (r1Method a) with
    | none => "raised:ValueError"
    | some Fs =>
      let xsel := ix.take xs.length
      let ix0 := ix.getD xs.length firstSel
      let ixb := ix.getD (xs.length + 1) firstSel
      let shortcut := allFirst ix || allLast ix
      -- the shortcut needs EVERY index element to match; otherwise the general path is taken
      let rows := if allFirst ix then [0] else if allLast ix then [a.tp.length - 1] else selRows xs xsel
      let out := rows.map (fun r =>
        let tpr := a.tp.getD r []
        let F := Fs.getD r linearM
        if a.b then
          let cells := if shortcut then getitem1b F a.n a.t tpr ix0 ixb
            else (sub1 none (recon1b F a.n a.t tpr) a.n ix0).map (fun c =>
              gather none (cellList 2 c) (ixb.positions 2))
          (cells.length, cells.flatten.map (showOpt a.scale))
        else
          let vals := if shortcut then getitem1 F a.n a.t tpr ix0
            else sub1 none (recon1 F a.n a.t tpr) a.n ix0
          (vals.length, vals.map (showOpt a.scale)))
      let n0 := (out.head?.map (·.1)).getD ((ix0.positions a.n).length)
      let xshape := if shortcut then xs.map (fun _ => 1)
        else (List.zip xs xsel).map (fun (n, s) => (s.positions n).length)
      let shape := xshape ++ [n0] ++ (if a.b then [(ixb.positions 2).length] else [])
      s!"shape={showNatList shape} data=[{String.intercalate "," (out.map (·.2)).flatten}]"

def runG2 (kv : KV) : String :=
  match (do
    let b ← parseBool (← kv.get? "b")
    let n0 ← (← kv.get? "n0").toNat?
    let n1 ← (← kv.get? "n1").toNat?
    let t0 ← parseNatList (← kv.get? "t0")
    let t1 ← parseNatList (← kv.get? "t1")
    let den ← (← kv.get? "den").toNat?
    let scale ← (← kv.get? "scale").toNat?
    let tp ← parseRows (← kv.get? "tp")
    let xs ← parseNatList (← kv.get? "xs")
    let ix ← parseSels (← kv.get? "ix")
    if den == 0 || scale == 0 then none
    if !(tp.all (fun r => r.length == t0.length * t1.length)) then none
    if ix.length != xs.length + 2 + (if b then 1 else 0) then none
    if xs.foldl (· * ·) 1 != tp.length then none
    if !((List.zip (xs ++ [n0, n1] ++ (if b then [4] else [])) ix).all (fun (n, s) => s.wf n)) then none
    some (b, n0, n1, t0, t1, den, scale, tp, xs, ix)) with
  | none => "bad-op"
  | some (b, n0, n1, t0, t1, den, scale, tp, xs, ix) =>
    let xsel := ix.take xs.length
    let ix0 := ix.getD xs.length firstSel
    let ix1 := ix.getD (xs.length + 1) firstSel
    let ixb := ix.getD (xs.length + 2) firstSel
    -- bounds over two subsampled dimensions never take the shortcut
    let shortcut := !b && (allFirst ix || allLast ix)
    let rows := if shortcut && allFirst ix then [0] else if shortcut then [tp.length - 1] else selRows xs xsel
    let out := rows.map (fun r =>
      let m := chunk t1.length t0.length ((tp.getD r []).map (toRat den))
      if b then
        ((getitem2b n0 n1 t0 t1 m ix0 ix1 ixb).flatMap (fun row => row.flatten)).map (showOpt scale)
      else
        let vals := if shortcut then getitem2 n0 n1 t0 t1 m ix0 ix1
          else sub2 none (recon2 n0 n1 t0 t1 m) n0 n1 ix0 ix1
        vals.flatten.map (showOpt scale))
    let xshape := if shortcut then xs.map (fun _ => 1)
      else (List.zip xs xsel).map (fun (n, s) => (s.positions n).length)
    let sshape := if shortcut then [1, 1] else [(ix0.positions n0).length, (ix1.positions n1).length]
    let shape := xshape ++ sshape ++ (if b then [(ixb.positions 4).length] else [])
    s!"shape={showNatList shape} data=[{String.intercalate "," out.flatten}]"

/-! ### the reader -/

def parseStrList (s : String) : Option (List String) := do
  let inner ← stripBrackets s
  if inner.isEmpty then some [] else some (splitOnChar inner ',')

def runRd (kv : KV) : String :=
  match (do
    let dims ← parseStrList (← kv.get? "dims")
    let tpm ← parseStrList (← kv.get? "tpm")
    let sizesS ← parseStrList (← kv.get? "sizes")
    let sizes ← sizesS.mapM (fun x => match splitOnChar x ':' with
      | [k, v] => v.toNat?.map (fun n => (k, n))
      | _ => none)
    let b ← parseBool (← kv.get? "b")
    let pvS ← stripBrackets (← kv.get? "pv")
    let pv ← (if pvS.isEmpty then some [] else (splitOnChar pvS ';').mapM (fun x =>
      match splitOnChar x '=' with
      | [term, var, ds] => some (term, var, if ds.isEmpty then [] else splitOnChar ds ',')
      | _ => none))
    let ci ← parseStrList (← kv.get? "ci")
    let ip ← parseStrList (← kv.get? "ip")
    some (dims, tpm, sizes, b, pv, ci, ip)) with
  | none => "bad-op"
  | some (dims, tpm, sizes, b, pv, ci, ip) =>
    let rec_ := subsampledRecord (parseX (tpm.map lexTok))
    let shape := readShape rec_ dims sizes b
    let tpi := (readTiePointIndices rec_ dims).map (fun (i, v) => s!"{i}:{v}")
    -- interpolation_parameters: term -> variable; the variable's dimensions come from `pv`
    let terms := (parseX (ip.map lexTok)).map (fun (term, vars) => (term, vars.headD ""))
    let pd := terms.map (fun (term, var) =>
      let ds := ((pv.find? (fun x => x.2.1 == var)).map (·.2.2)).getD []
      s!"{term}:" ++ String.intercalate "," ((readParameterDimensions rec_ dims ds).map toString))
    let cis := (coordInterp (ci.map lexCTok)).map (fun (iv, cs) => s!"{iv}:" ++ String.intercalate "," cs)
    s!"shape={showNatList shape} tpi=[{String.intercalate ";" tpi}] pd=[{String.intercalate ";" pd}] ci=[{String.intercalate ";" cis}]"

def showSub (s : Sub) : String :=
  s!"u:{s.uStart}:{s.uStop},n:{s.size},c:{s.tp}:{s.tp + 2},f:{if s.first then 1 else 0},j:{s.loc}"

def runSub (kv : KV) : String :=
  match (do parseNatList (← kv.get? "t")) with
  | none => "bad-op"
  | some t => "[" ++ String.intercalate ";" ((subs t).map showSub) ++ "]"

def run (sub : String) (kv : KV) : String :=
  match sub with
  | "r1" => runR1 kv
  | "r2" => runR2 kv
  | "g1" => runG1 kv
  | "g2" => runG2 kv
  | "rd" => runRd kv
  | "q1" => C16Geo.runQ1 kv
  | "q2" => C16Geo.runQ2 kv
  | "sub" => runSub kv
  | _ => "bad-op"

end Cfdm.Driver.C16
