import Cfdm.Driver.Parse
import Cfdm.Model.Subsample
/-
Driver for C16.

  C16.r1 m=linear|quadratic b=0|1 n=N t=[…] den=D scale=L tp=[row;row;…] w=[row;row;…]|-
      one subsampled dimension; one row of tie points (and of `w`) per combination of the
      non-interpolated dimensions; tie point / w values are the integers given divided by D
      → shape=[R,N] (b=1: [R,N,2]) data=[…]   every value multiplied by L, `--` = masked
  C16.r2 b=0|1 n0=… n1=… t0=[…] t1=[…] den=D scale=L tp=[row;…]
      two subsampled dimensions (bi_linear); each row is the row-major (len t0 × len t1) matrix
      → shape=[R,N0,N1] (b=1: [R,N0,N1,4]) data=[…]
  C16.sub t=[…]    → the per-subarea bookkeeping (level-2 intermediate)
-/
namespace Cfdm.Driver.C16
open Cfdm.Driver Cfdm.Subsample

def parseRow (s : String) : Option (List Int) :=
  if s.isEmpty then some [] else (splitOnChar s ',').mapM parseInt?

def parseRows (s : String) : Option (List (List Int)) := do
  let inner ← stripBrackets s
  (splitOnChar inner ';').mapM parseRow

def parseBool (s : String) : Option Bool :=
  if s == "1" then some true else if s == "0" then some false else none

def showRat (L : Nat) (q : Rat) : String :=
  let x := q * (L : Rat)
  if x.den == 1 then toString x.num else s!"{x.num}/{x.den}"

def showOpt (L : Nat) : Option Rat → String
  | none => "--"
  | some q => showRat L q

def showCell (L : Nat) (k : Nat) : Option (List Rat) → List String
  | none => List.replicate k "--"
  | some c => c.map (showRat L)

def toRat (den : Nat) (x : Int) : Rat := (x : Rat) / (den : Rat)

def chunk {α} (k : Nat) : Nat → List α → List (List α)
  | 0, _ => []
  | n + 1, l => l.take k :: chunk k n (l.drop k)

def runR1 (kv : KV) : String :=
  match (do
    let m ← kv.get? "m"
    let b ← parseBool (← kv.get? "b")
    let n ← (← kv.get? "n").toNat?
    let t ← parseNatList (← kv.get? "t")
    let den ← (← kv.get? "den").toNat?
    let scale ← (← kv.get? "scale").toNat?
    let tp ← parseRows (← kv.get? "tp")
    let wS ← kv.get? "w"
    let w ← if wS == "-" then some none else (parseRows wS).map some
    if den == 0 || scale == 0 then none
    if !(tp.all (fun r => r.length == t.length)) then none
    if m != "linear" && m != "quadratic" then none
    if m == "linear" && w.isSome then none
    match w with
    | some ws => if ws.length != tp.length then none
    | none => pure ()
    some (m, b, n, t, den, scale, tp, w)) with
  | none => "bad-op"
  | some (m, b, n, t, den, scale, tp, w) =>
    let rows := (List.range tp.length).map (fun r =>
      let tpr := (tp.getD r []).map (toRat den)
      let F : Method :=
        if m == "linear" then linearM
        else quadraticM (w.map (fun ws => (ws.getD r []).map (toRat den)))
      if b then (recon1b F n t tpr).flatMap (showCell scale 2)
      else (recon1 F n t tpr).map (showOpt scale))
    let shape := if b then [tp.length, n, 2] else [tp.length, n]
    s!"shape={showNatList shape} data=[{String.intercalate "," rows.flatten}]"

def runR2 (kv : KV) : String :=
  match (do
    let b ← parseBool (← kv.get? "b")
    let n0 ← (← kv.get? "n0").toNat?
    let n1 ← (← kv.get? "n1").toNat?
    let t0 ← parseNatList (← kv.get? "t0")
    let t1 ← parseNatList (← kv.get? "t1")
    let den ← (← kv.get? "den").toNat?
    let scale ← (← kv.get? "scale").toNat?
    let tp ← parseRows (← kv.get? "tp")
    if den == 0 || scale == 0 then none
    if !(tp.all (fun r => r.length == t0.length * t1.length)) then none
    some (b, n0, n1, t0, t1, den, scale, tp)) with
  | none => "bad-op"
  | some (b, n0, n1, t0, t1, den, scale, tp) =>
    let rows := tp.map (fun r =>
      let m := chunk t1.length t0.length (r.map (toRat den))
      if b then ((recon2b n0 n1 t0 t1 m).flatMap (fun row => row.flatMap (showCell scale 4)))
      else ((recon2 n0 n1 t0 t1 m).flatMap (fun row => row.map (showOpt scale))))
    let shape := if b then [tp.length, n0, n1, 4] else [tp.length, n0, n1]
    s!"shape={showNatList shape} data=[{String.intercalate "," rows.flatten}]"

def showSub (s : Sub) : String :=
  s!"u:{s.uStart}:{s.uStop},n:{s.size},c:{s.tp}:{s.tp + 2},f:{if s.first then 1 else 0},j:{s.loc}"

def runSub (kv : KV) : String :=
  match (do parseNatList (← kv.get? "t")) with
  | none => "bad-op"
  | some t => "[" ++ String.intercalate ";" ((subs t).map showSub) ++ "]"

def run (sub : String) (kv : KV) : String :=
  match sub with
  | "r1" => runR1 kv
  | "r2" => runR2 kv
  | "sub" => runSub kv
  | _ => "bad-op"

end Cfdm.Driver.C16
