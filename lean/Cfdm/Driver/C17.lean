import Lean.Data.Json
import Cfdm.Driver.Parse
import Cfdm.Model.AppendHyp
/-
Driver for C17.  One line = one scenario:

  C17.seq fix=<new|old|any|unguarded|weakpinned|6, 7 or 8 bits> j=<compact JSON, blanks written  >

JSON: {"nc4": bool, "steps": [ {"E": ds, "RB": [field…], "S": [field…]} … ]}
  ds    {"dims": [[name,size,unlim]…], "vars": [name…], "g": [[k,vhash]…], "ft": str|null}
  field {"groups": bool, "ft": str|null, "ftf": str|null, "gc": [[k,vhash]…], "reqs": [req…]}
  cons  [cid, kind, strlen|null, [[k,vhash]…], [extent…]]        (the last: shape of the data, without the char dimension)
  breq  [cons, size, dimBase, varPinned|null, clim]
  req   ["dc",key,axis,cons,base|null,ncdim|null,size,unlim,breq|null] | ["ad",axis,size,unlim,base,[[cid,kind,pos]…],pinned?]
      | ["sc",key,axis,cons,base,breq|null] | ["ax",key,cons,[axes],base,breq|null] | ["da",key,cons,[axes],base,breq|null]
      | ["ms",key,cons,[axes],base,measure] | ["ft",owner,zaxis,[[term,key,[axes]]…],[[term,cons]…]?] | ["gm",cons,base,[keys],multiple]
      | ["fa",key,cons,[axes],base] | ["dv",cons,base,[axes],[[[axis|str…],rest]…],isDomain]

Output per step, joined by " || ":
  refused:<why> | failed:<NameInUse|KeyError> …  | ok …   followed by what the pass added to the dataset:
  D[name,size,unlim;…] V[name(dims)(k=v&…);…] G=same|changed L[name:old>new;…]
  (sorted by name; only reference attributes are printed, and `name=*` for the description-of-file-contents
  attributes comment/history/institution/references/source/title; L: dimensions of the dataset whose length changed)
-/
namespace Cfdm.Driver.C17
open Cfdm.Driver Cfdm.Append Lean

abbrev P := Except String

def arr (j : Json) : P (Array Json) := j.getArr?
def str (j : Json) : P String := j.getStr?
def nat (j : Json) : P Nat := j.getNat?
def bool (j : Json) : P Bool := j.getBool?
def optStr (j : Json) : P (Option String) := if j.isNull then pure none else some <$> j.getStr?
def optNat (j : Json) : P (Option Nat) := if j.isNull then pure none else some <$> j.getNat?
def list {β} (f : Json → P β) (j : Json) : P (List β) := do (← arr j).toList.mapM f
def at' (a : Array Json) (i : Nat) : P Json := match a[i]? with | some x => pure x | none => throw "index"

def kvs (j : Json) : P (List (String × String)) :=
  list (fun p => do let a ← arr p; pure (← str (← at' a 0), ← str (← at' a 1))) j

def cons (j : Json) : P Cons := do
  let a ← arr j
  pure { cid := ← nat (← at' a 0), kind := ← nat (← at' a 1), strlen := ← optNat (← at' a 2), attrs := ← kvs (← at' a 3),
         shape := ← (match a[4]? with | some x => list nat x | none => pure []) }

def breq (j : Json) : P (Option BReq) := do
  if j.isNull then return none
  let a ← arr j
  pure (some { c := ← cons (← at' a 0), size := ← nat (← at' a 1), dimBase := ← str (← at' a 2),
               varPinned := ← optStr (← at' a 3), clim := ← bool (← at' a 4) })

def axisOrStr (j : Json) : P (Nat ⊕ String) :=
  match j.getNat? with
  | .ok n => pure (.inl n)
  | .error _ => .inr <$> j.getStr?

def req (j : Json) : P Req := do
  let a ← arr j
  let tag ← str (← at' a 0)
  match tag with
  | "dc" => pure (.dimCoord (← nat (← at' a 1)) (← nat (← at' a 2)) (← cons (← at' a 3)) (← optStr (← at' a 4))
                  (← optStr (← at' a 5)) (← nat (← at' a 6)) (← bool (← at' a 7)) (← breq (← at' a 8)))
  | "ad" => pure (.axisDim (← nat (← at' a 1)) (← nat (← at' a 2)) (← bool (← at' a 3)) (← str (← at' a 4))
                  (← list (fun t => do let b ← arr t; pure (← nat (← at' b 0), ← nat (← at' b 1), ← nat (← at' b 2))) (← at' a 5))
                  (← (match a[6]? with | some x => bool x | none => pure false)))
  | "sc" => pure (.scalarCoord (← nat (← at' a 1)) (← nat (← at' a 2)) (← cons (← at' a 3)) (← str (← at' a 4)) (← breq (← at' a 5)))
  | "ax" => pure (.aux (← nat (← at' a 1)) (← cons (← at' a 2)) (← list nat (← at' a 3)) (← str (← at' a 4)) (← breq (← at' a 5)))
  | "da" => pure (.domAnc (← nat (← at' a 1)) (← cons (← at' a 2)) (← list nat (← at' a 3)) (← str (← at' a 4)) (← breq (← at' a 5)))
  | "ms" => pure (.msr (← nat (← at' a 1)) (← cons (← at' a 2)) (← list nat (← at' a 3)) (← str (← at' a 4)) (← str (← at' a 5))
                  (← (match a[6]? with | some x => optStr x | none => pure none)))
  | "ft" => pure (.formula (← nat (← at' a 1)) (← nat (← at' a 2))
                  (← list (fun t => do let b ← arr t; pure (← str (← at' b 0), ← nat (← at' b 1), ← list nat (← at' b 2))) (← at' a 3))
                  (← (match a[4]? with
                      | some x => list (fun t => do let b ← arr t; pure (← str (← at' b 0), ← cons (← at' b 1))) x
                      | none => pure [])))
  | "gm" => pure (.gridMap (← cons (← at' a 1)) (← str (← at' a 2)) (← list nat (← at' a 3)) (← bool (← at' a 4)))
  | "fa" => pure (.fieldAnc (← nat (← at' a 1)) (← cons (← at' a 2)) (← list nat (← at' a 3)) (← str (← at' a 4)))
  | "dv" => pure (.data (← cons (← at' a 1)) (← str (← at' a 2)) (← list nat (← at' a 3))
                  (← list (fun t => do let b ← arr t; pure (← list axisOrStr (← at' b 0), ← str (← at' b 1))) (← at' a 4))
                  (← bool (← at' a 5)))
  | _ => throw "req"

def field (j : Json) : P FieldReq := do
  pure { reqs := ← list req (← j.getObjVal? "reqs"), groups := ← bool (← j.getObjVal? "groups"),
         featureType := ← optStr (← j.getObjVal? "ft"), ftForced := ← optStr (← j.getObjVal? "ftf"),
         gcand := ← kvs (← j.getObjVal? "gc") }

def ds (j : Json) : P Ds := do
  let dims ← list (fun t => do let b ← arr t; pure (⟨← str (← at' b 0), ← nat (← at' b 1), ← bool (← at' b 2)⟩ : Dim)) (← j.getObjVal? "dims")
  let vars ← list (fun t => do pure ({ name := ← str t, dims := [], attrs := [], cid := 0 } : Var)) (← j.getObjVal? "vars")
  let g ← kvs (← j.getObjVal? "g")
  let ft ← optStr (← j.getObjVal? "ft")
  let g := match ft with | some t => g.filter (·.1 != "featureType") ++ [("featureType", t)] | none => g
  pure { dims := dims, vars := vars, gattrs := g }

def parseFix (s : String) : Option Fix :=
  match s with
  | "new" => some Fix.new
  | "old" => some Fix.old
  | "unguarded" => some { Fix.new with globalsGuarded := false }
  | "weakpinned" => some { Fix.new with pinnedSize := false }
  | _ =>
    match s.toList with
    | [a, b, c, d, e, f] =>
      if [a, b, c, d, e, f].all (fun x => x == '0' || x == '1') then
        some { formulaTerms := a == '1', featureType := b == '1', globals := c == '1', names := d == '1', blanks := e == '1', fill := f == '1' }
      else none
    | [a, b, c, d, e, f, g] =>
      if [a, b, c, d, e, f, g].all (fun x => x == '0' || x == '1') then
        some { formulaTerms := a == '1', featureType := b == '1', globals := c == '1', names := d == '1', blanks := e == '1', fill := f == '1',
               dimCoordName := g == '1' }
      else none
    | [a, b, c, d, e, f, g, h] =>
      if [a, b, c, d, e, f, g, h].all (fun x => x == '0' || x == '1') then
        some { formulaTerms := a == '1', featureType := b == '1', globals := c == '1', names := d == '1', blanks := e == '1', fill := f == '1',
               dimCoordName := g == '1', dryNames := h == '1' }
      else none
    | _ => none

def refAttrs : List String :=
  ["coordinates", "bounds", "climatology", "formula_terms", "grid_mapping", "cell_measures", "ancillary_variables",
   "cell_methods", "dimensions"]

/-- description-of-file-contents attributes: whether a new variable carries them is the decision of
`_write_global_attributes` (printed as `name=*`: the value is not compared) -/
def descrAttrs : List String :=
  ["comment", "history", "institution", "references", "source", "title"]

def showVar (v : Var) : String :=
  let ats := ((v.attrs.filter (fun kv => refAttrs.contains kv.1)) ++
              ((v.attrs.filter (fun kv => descrAttrs.contains kv.1)).map (fun kv => (kv.1, "*")))).mergeSort (fun a b => a.1 ≤ b.1)
  s!"{v.name}({",".intercalate v.dims})({"&".intercalate (ats.map (fun kv => kv.1 ++ "=" ++ kv.2))})"

def showAdded (E E' : Ds) : String :=
  let nd := (E'.dims.filter (fun d => !E.dimNames.contains d.name)).mergeSort (fun a b => a.name ≤ b.name)
  let nv := (E'.vars.filter (fun v => !E.varNames.contains v.name)).mergeSort (fun a b => a.name ≤ b.name)
  let gsame := decide (E'.gattrs = E.gattrs)
  -- dimensions of the dataset whose length is no longer what it was
  let ch := (E.dims.filterMap (fun d => match E'.dims.find? (·.name == d.name) with
    | some d' => if d'.size == d.size then none else some s!"{d.name}:{d.size}>{d'.size}"
    | none => some s!"{d.name}:{d.size}>gone")).mergeSort (· ≤ ·)
  s!"D[{";".intercalate (nd.map (fun d => s!"{d.name},{d.size},{if d.unlim then 1 else 0}"))}] V[{";".intercalate (nv.map showVar)}] G={if gsame then "same" else "changed"} L[{";".intercalate ch}]"

def showErr : Err → String
  | .nameInUse n => s!"NameInUse:{n}"
  | .keyError w => s!"KeyError:{w}"
  | .noSuchDim d => s!"NoSuchDim:{d}"
  | .shapeMismatch d => s!"ShapeMismatch:{d}"
  | .refused w => s!"refused:{w}"

def runStep (fx : Fix) (nc4 : Bool) (j : Json) : P String := do
  let E ← ds (← j.getObjVal? "E")
  let rb ← list field (← j.getObjVal? "RB")
  let S ← list field (← j.getObjVal? "S")
  let (st, E') := append fx nc4 E rb S
  pure (match st with
    | .ok => "ok " ++ showAdded E E'
    | .refused w => s!"refused:{w}"
    | .failed e => s!"failed:{showErr e} " ++ showAdded E E')

def allFixes : List Fix :=
  let bs := [true, false]
  bs.flatMap fun a => bs.flatMap fun b => bs.flatMap fun c => bs.flatMap fun d => bs.flatMap fun e => bs.flatMap fun f => bs.flatMap fun g =>
    bs.map fun h =>
    { formulaTerms := a, featureType := b, globals := c, names := d, blanks := e, fill := f, dimCoordName := g, dryNames := h }

/-- The repair that is proposed but not (yet) in /repo: C17-append-dry-run-names.  The others are in /repo HEAD
(known_findings.json: `fixed: <commit>`; the dimension-coordinate name since d714c80) and are no longer alternatives. -/
def pendingFixes : List Fix :=
  [true, false].map fun h => { Fix.new with dryNames := h }

/-- `fix=any`: the distinct predictions over every combination of the *pending* proposed patches (the patched
code first), joined by " ### "; `fix=all`: over every combination of all switches. -/
def runSeq (kv : KV) : String :=
  match (do
    let fs := (kv.get? "fix").getD "new"
    let fxs ← if fs == "any" then pure pendingFixes else if fs == "all" then pure allFixes
               else (parseFix fs).elim (throw "fix") (fun f => pure [f])
    let js ← (kv.get? "j").elim (throw "j") pure
    let j ← Json.parse js
    let nc4 ← bool (← j.getObjVal? "nc4")
    let steps ← arr (← j.getObjVal? "steps")
    let outs ← fxs.mapM (fun fx => do
      let o ← steps.toList.mapM (runStep fx nc4)
      pure (" || ".intercalate o))
    pure (" ### ".intercalate outs.eraseDups) : P String) with
  | .ok s => s
  | .error _ => "bad-op"

/-- `C17.hyp j=…`: per step, whether the hypotheses of the preservation theorems hold of the inputs (all
decidable): the fields read back are well-formed / report the dataset's dimension lengths, the batch is
well-formed, the tables left by the dry run agree with the dataset (for the proposed code and for /repo HEAD). -/
def runHyp (kv : KV) : String :=
  match (do
    let js ← (kv.get? "j").elim (throw "j") pure
    let j ← Json.parse js
    let steps ← arr (← j.getObjVal? "steps")
    let o ← steps.toList.mapM (fun st => do
      let E ← ds (← st.getObjVal? "E")
      let rb ← list field (← st.getObjVal? "RB")
      let S ← list field (← st.getObjVal? "S")
      let b := fun (x : Bool) => if x then "1" else "0"
      let head : Fix := { Fix.new with dryNames := false }
      pure s!"rbwf={b (decide (∀ f ∈ rb, f.wf))} rbfaithful={b (decide (∀ f ∈ rb, f.faithful E))} swf={b (decide (∀ f ∈ S, f.wf))} agrees={b (decide (RegAgrees E (dryReg Fix.new E rb)))} agreeshead={b (decide (RegAgrees E (dryReg head E rb)))}")
    pure (" || ".intercalate o) : P String) with
  | .ok s => s
  | .error _ => "bad-op"

def run (sub : String) (kv : KV) : String :=
  match sub with
  | "seq" => runSeq kv
  | "hyp" => runHyp kv
  | _ => "bad-op"

end Cfdm.Driver.C17
