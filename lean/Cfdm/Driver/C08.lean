import Cfdm.Driver.Parse
import Cfdm.Model.NcNames
import Cfdm.Model.Globals
import Cfdm.Model.NcFile
import Cfdm.Model.NcField
import Cfdm.Model.NcStore
import Cfdm.Generated.FileContents
/-
Line-protocol driver for C08.

Strings that may contain blanks or protocol characters travel as `.`-separated decimal
code points (`e` = the empty string).  Attribute names and netCDF names of the `glob` and
`wf` streams are plain identifiers (the harness sends no line otherwise).

  C08.names evs=[r:<base>:<dimsize|_>:<role|_>;d:<name>:<size>;…]
      → res=[f:<name>;u:<name>;ve;ke;…] old=[…]   (fresh / reused / ValueError / KeyError;
                                                   `old` = the method as it stands, blanks replaced last)
  C08.glob  conv=new|old ver=<enc> carg=n|s:<enc>|l:<enc>/<enc>/…
            glob=[a,b] var=[a] fd=[k~v,…] fields=[k~v,…|k~v,k~_,…;…]
      → conv=<enc> glob=[k~v,…] vars=[k~v,…;…] | raised:…
        followed by ` old=raised:TypeError` when the code as it stands (`len(set(v))`) raises
  C08.emit  steps=[d:<dim>:<size>;v:<var>:<dim>,<dim>;r:<var>:<kind>><target>;e:<name>;…]
      → ok dims=[…] vars=[name|dims|refs;…] ext=[…]  |  refused:<index of the first refused step>
  C08.wf    dims=[n:size,…] vars=[name|d,d|D or -|kind>target,…;…] ext=[a,…]
      → ok | bad:<rule>
  C08.dtype fmt=NETCDF4|NETCDF4_CLASSIC|NETCDF3_CLASSIC|NETCDF3_64BIT_OFFSET|NETCDF3_64BIT_DATA string=0|1
            map=[i8>i4,f8>f4,…] vars=[name:<dtype or ->:<dtype of the fill property or ->,…]   (dtype = i1…u8,f4,f8,S<n>,U<n>)
      → name=<str or kind+size>/<dtype of _FillValue or ->/<extra dimensions>;…
  C08.field scalar=0|1 coordinates=0|1 fields=[F;F;…]
            F    = <name or -> | axis,axis,… | key,key,… (data axes) | cons,cons,… | cm,cm,…
            axis = key:size:<ncdim or ->:U or L:<- or dckey/content/<name or ->>
            cons = key:aux|measure|fieldanc:content:<name or ->:<measure or ->:ax+ax+…
            cm   = ax+ax+…
      → ok unlim=[d,…] dims=[…] vars=[…] ext=[] info=[ncvar>d,d>c,c>t+t,t;…]  |  refused
        followed by ` old=<the same for the code as it stands>` when that differs
-/
namespace Cfdm.Driver.C08
open Cfdm.Driver

def decStr (s : String) : Option String :=
  if s == "e" then some "" else
  ((s.splitOn ".").mapM String.toNat?).map (fun l => String.ofList (l.map Char.ofNat))

def encStr (s : String) : String :=
  if s.isEmpty then "e" else String.intercalate "." (s.toList.map (fun c => toString c.toNat))

def splitList (s : String) (sep : String) : Option (List String) := do
  let inner ← stripBrackets s
  if inner.isEmpty then some [] else some (inner.splitOn sep)

def parseBool (kv : KV) (k : String) : Option Bool :=
  match kv.get? k with
  | some "1" => some true
  | some "0" => some false
  | _ => none

/-! ### names -/
open Cfdm.NcNames in
def parseEv (t : String) : Option Ev :=
  match t.splitOn ":" with
  | ["r", b, d, r] => do
    let base ← decStr b
    let dimsize ← if d == "_" then some none else d.toNat?.map some
    let role ← if r == "_" then some none else (decStr r).map some
    some (.req base dimsize role)
  | ["d", n, k] => do
    let name ← decStr n
    let size ← k.toNat?
    some (.regdim name size)
  | _ => none

open Cfdm.NcNames in
def showRes : Res → String
  | .fresh n => "f:" ++ encStr n
  | .reused n => "u:" ++ encStr n
  | .valueError => "ve"
  | .keyError => "ke"

open Cfdm.NcNames in
def runNames (kv : KV) : String :=
  match (do
    let evs ← (← splitList (← kv.get? "evs") ";").mapM parseEv
    some evs) with
  | none => "bad-op"
  | some evs =>
    let (_, rs) := run true {} evs
    let (_, os) := run false {} evs
    "res=[" ++ String.intercalate ";" (rs.map showRes) ++ "] old=[" ++ String.intercalate ";" (os.map showRes) ++ "]"

/-! ### global attributes -/
def parsePair (t : String) : Option (String × Option String) :=
  match t.splitOn "~" with
  | [k, v] => if k.isEmpty then none else some (k, if v == "_" then none else some v)
  | _ => none

def parsePairs (s : String) : Option (List (String × Option String)) :=
  if s.isEmpty then some [] else (s.splitOn ",").mapM parsePair

def parseDict (s : String) : Option (List (String × String)) := do
  let l ← parsePairs s
  l.mapM (fun kv => kv.2.map (fun v => (kv.1, v)))

open Cfdm.Globals in
def parseField (t : String) : Option FieldG :=
  match t.splitOn "|" with
  | [p, g] => do
    let props ← parseDict p
    let ncg ← parsePairs g
    some { props := props, ncg := ncg }
  | _ => none

open Cfdm.Globals in
def parseConvArg (s : String) : Option ConvArg :=
  if s == "n" then some .none else
  if s.startsWith "s:" then (decStr (s.drop 2).toString).map (fun x => .str x.toList) else
  if s.startsWith "l:" then (((s.drop 2).toString.splitOn "/").mapM decStr).map (fun l => .seq (l.map String.toList)) else
  none

def showDict (l : List (String × String)) : String :=
  let sorted := l.toArray.qsort (fun a b => a.1 < b.1 || (a.1 == b.1 && a.2 < b.2))
  String.intercalate "," (sorted.toList.map (fun kv => kv.1 ++ "~" ++ kv.2))

open Cfdm.Globals in
/-- As coded, `len(set(v)) == 1` raises `TypeError` when every field forces a key and one of the
values is unhashable (value tokens starting with `u`). -/
def unhashableForced (fs : List FieldG) : Bool :=
  (forcedKeys fs).any (fun k =>
    let v := forcedVals fs k
    v.length == fs.length && v.any (·.startsWith "u"))

open Cfdm.Globals in
def runGlob (kv : KV) : String :=
  match (do
    let convMode ← kv.get? "conv"
    let ver ← decStr (← kv.get? "ver")
    let carg ← parseConvArg (← kv.get? "carg")
    let glob ← splitList (← kv.get? "glob") ","
    let var ← splitList (← kv.get? "var") ","
    let fd ← parseDict (← stripBrackets (← kv.get? "fd"))
    let fields ← (← splitList (← kv.get? "fields") ";").mapM parseField
    if convMode != "new" && convMode != "old" then none
    some (convMode, ver, carg, glob, var, fd, fields)) with
  | none => "bad-op"
  | some (convMode, ver, carg, glob, var, fd, fields) =>
    if fields.isEmpty then "bad-op" else
    let o : Opts := { descr := Cfdm.Generated.fileContentsAttributes, userGlobal := glob, varAttrs := var, fileDesc := fd }
    let oldSuffix := if unhashableForced fields then " old=raised:TypeError" else ""
    -- the value token of a forced `Conventions` is `c<encoded string>`
    let forced := (forcedConventions o fields).bind (fun t => decStr (t.drop 1).toString)
    let conv := if convMode == "new" then conventions ver.toList carg (forced.map String.toList)
                else conventionsOld ver.toList carg (forced.map String.toList)
    (match conv with
    | .valueError => "raised:ValueError"
    | .indexError => "raised:IndexError"
    | .ok c =>
      s!"conv={encStr (String.ofList c)} glob=[{showDict (writtenGlobals o fields)}] vars=[{String.intercalate ";" (fields.map (fun f => showDict (variableAttrs o fields f)))}]")
    ++ oldSuffix

/-! ### structure -/
open Cfdm.NcFile in
def parseKind : String → Option RefKind
  | "coordinates" => some .coordinates
  | "bounds" => some .bounds
  | "climatology" => some .climatology
  | "cell_measures" => some .cellMeasures
  | "ancillary_variables" => some .ancillary
  | "grid_mapping" => some .gridMapping
  | "grid_mapping_coord" => some .gridMappingCoord
  | "formula_terms" => some .formulaTerms
  | "cell_methods" => some .cellMethodAxis
  | "compress" => some .compress
  | "sample_dimension" => some .sampleDim
  | "instance_dimension" => some .instanceDim
  | "geometry" => some .geometry
  | "node_coordinates" => some .nodeCoordinates
  | "node_count" => some .nodeCount
  | "part_node_count" => some .partNodeCount
  | "interior_ring" => some .interiorRing
  | "nodes" => some .nodes
  | "container_coord" => some .containerCoord
  | _ => none

open Cfdm.NcFile in
def parseRef (t : String) : Option Ref :=
  match t.splitOn ">" with
  | [k, target] => (parseKind k).map (fun kind => ⟨kind, target⟩)
  | _ => none

def splitOrEmpty (s sep : String) : List String := if s.isEmpty then [] else s.splitOn sep

open Cfdm.NcFile in
def parseVar (t : String) : Option Var :=
  match t.splitOn "|" with
  | [name, dims, d, refs] => do
    if name.isEmpty then none
    let isData ← if d == "D" then some true else if d == "-" then some false else none
    let rs ← (splitOrEmpty refs ",").mapM parseRef
    some { name := name, dims := splitOrEmpty dims ",", refs := rs, isData := isData }
  | _ => none

def parseDim (t : String) : Option (String × Nat) :=
  match t.splitOn ":" with
  | [n, k] => k.toNat?.map (fun k => (n, k))
  | _ => none

open Cfdm.NcFile in
def runWf (kv : KV) : String :=
  match (do
    let dims ← (← splitList (← kv.get? "dims") ",").mapM parseDim
    let vars ← (← splitList (← kv.get? "vars") ";").mapM parseVar
    let ext ← splitList (← kv.get? "ext") ","
    some ({ dims := dims, vars := vars, external := ext } : File)) with
  | none => "bad-op"
  | some F => if wfFile F then "ok" else "bad:" ++ firstFailure F

open Cfdm.NcFile in
def showKind : RefKind → String
  | .coordinates => "coordinates"
  | .bounds => "bounds"
  | .climatology => "climatology"
  | .cellMeasures => "cell_measures"
  | .ancillary => "ancillary_variables"
  | .gridMapping => "grid_mapping"
  | .gridMappingCoord => "grid_mapping_coord"
  | .formulaTerms => "formula_terms"
  | .cellMethodAxis => "cell_methods"
  | .compress => "compress"
  | .sampleDim => "sample_dimension"
  | .instanceDim => "instance_dimension"
  | .geometry => "geometry"
  | .nodeCoordinates => "node_coordinates"
  | .nodeCount => "node_count"
  | .partNodeCount => "part_node_count"
  | .interiorRing => "interior_ring"
  | .nodes => "nodes"
  | .containerCoord => "container_coord"

def sortStrings (l : List String) : List String := (l.toArray.qsort (· < ·)).toList

open Cfdm.NcFile in
def dumpFile (F : File) : String :=
  let vs := (F.vars.toArray.qsort (fun a b => a.name < b.name)).toList
  let showVar (v : Var) : String :=
    v.name ++ "|" ++ String.intercalate "," v.dims ++ "|" ++
      String.intercalate "," (sortStrings ((v.refs.map (fun r => showKind r.kind ++ ">" ++ r.target)).eraseDups))
  s!"dims=[{String.intercalate "," (sortStrings F.dimNames)}] vars=[{String.intercalate ";" (vs.map showVar)}] ext=[{String.intercalate "," (sortStrings F.external)}]"

open Cfdm.NcFile in
def parseStep (t : String) : Option Step :=
  match t.splitOn ":" with
  | ["d", n, k] => k.toNat?.map (fun k => .dim n k)
  | ["v", n, ds] => if n.isEmpty then none else some (.var { name := n, dims := splitOrEmpty ds "," })
  | ["r", n, r] => (parseRef r).map (fun r => .addRef n r)
  | ["e", n] => some (.ext n)
  | _ => none

open Cfdm.NcFile in
/-- Replay an emission sequence through the guarded steps: the final dataset, or the index of
the first step whose guard fails. -/
def replay : File → Nat → List Step → Except Nat File
  | F, _, [] => .ok F
  | F, i, s :: ss => match applyStep F s with
    | none => .error i
    | some F' => replay F' (i + 1) ss

open Cfdm.NcFile in
def runEmit (kv : KV) : String :=
  match (do (← splitList (← kv.get? "steps") ";").mapM parseStep) with
  | none => "bad-op"
  | some steps =>
    match replay {} 0 steps with
    | .error i => s!"refused:{i}"
    | .ok F => (if wfCore F then "ok " else "not-wf ") ++ dumpFile F


/-! ### a whole write of fields (per-field naming maps) -/
def optName (s : String) : Option String := if s == "-" then none else some s

open Cfdm.NcField in
def parseCType : String → Option CType
  | "aux" => some .aux
  | "measure" => some .measure
  | "fieldanc" => some .fieldAnc
  | _ => none

open Cfdm.NcField in
def parseAxis (t : String) : Option Axis :=
  match t.splitOn ":" with
  | [key, size, ncdim, u, dc] => do
    if key.isEmpty then none
    let size ← size.toNat?
    let unl ← if u == "U" then some true else if u == "L" then some false else none
    let dimCoord ← (if dc == "-" then some none else
      match dc.splitOn "/" with
      | [k, c, n] => c.toNat?.map (fun c => some ({ key := k, content := c, name := optName n } : DimC))
      | _ => none)
    some { key := key, size := size, ncdim := optName ncdim, unlimited := unl, dimCoord := dimCoord }
  | _ => none

open Cfdm.NcField in
def parseCons (t : String) : Option Cons :=
  match t.splitOn ":" with
  | [key, ty, c, n, m, axes] => do
    if key.isEmpty then none
    let ty ← parseCType ty
    let c ← c.toNat?
    some { key := key, ctype := ty, content := c, name := optName n, measure := (optName m).getD "", axes := splitOrEmpty axes "+" }
  | _ => none

open Cfdm.NcField in
def parseAField (t : String) : Option AField :=
  match t.splitOn "|" with
  | [name, axes, da, cons, cms] => do
    let axes ← (splitOrEmpty axes ",").mapM parseAxis
    let cons ← (splitOrEmpty cons ",").mapM parseCons
    some { name := optName name, axes := axes, dataAxes := splitOrEmpty da ",", cons := cons,
           cellMethods := (splitOrEmpty cms ",").map (fun m => splitOrEmpty m "+") }
  | _ => none

open Cfdm.NcField in
def showInfo (i : Info) : String :=
  i.ncvar ++ ">" ++ String.intercalate "," i.dims ++ ">" ++ String.intercalate "," (sortStrings i.coords) ++ ">"
    ++ String.intercalate "," (i.cmTokens.map (String.intercalate "+"))

open Cfdm.NcField in
def showWrite : Option (List Info × WS) → String
  | none => "refused"
  | some (is, ws) =>
    s!"ok unlim=[{String.intercalate "," (sortStrings ws.unlimited)}] {dumpFile ws.w.file} info=[{String.intercalate ";" (is.map showInfo)}]"

open Cfdm.NcField in
def runField (kv : KV) : String :=
  match (do
    let scalar ← parseBool kv "scalar"
    let coordinates ← parseBool kv "coordinates"
    let fields ← (← splitList (← kv.get? "fields") ";").mapM parseAField
    some (({ scalar := scalar, coordinates := coordinates } : Opts), fields)) with
  | none => "bad-op"
  | some (o, fields) =>
    if fields.isEmpty then "bad-op" else
    let new := showWrite (writeFields true o {} fields)
    let old := showWrite (writeFields false o {} fields)
    if new == old then new else new ++ " old=" ++ old

/-! ### storage -/
open Cfdm.NcStore in
def parseDType (t : String) : Option DType :=
  match t.toList with
  | c :: rest =>
    (String.ofList rest).toNat?.bind (fun n =>
      match c with
      | 'i' => some ⟨.int, n⟩
      | 'u' => some ⟨.uint, n⟩
      | 'f' => some ⟨.float, n⟩
      | 'S' => some ⟨.bytes, n⟩
      | 'U' => some ⟨.unicode, n⟩
      | _ => none)
  | [] => none

open Cfdm.NcStore in
def showKindC : Kind → String
  | .int => "i" | .uint => "u" | .float => "f" | .bytes => "S" | .unicode => "U"

open Cfdm.NcStore in
def parseFmt : String → Option Fmt
  | "NETCDF4" => some .netcdf4
  | "NETCDF4_CLASSIC" => some .netcdf4Classic
  | "NETCDF3_CLASSIC" => some .netcdf3Classic
  | "NETCDF3_64BIT_OFFSET" => some .netcdf364Offset
  | "NETCDF3_64BIT_DATA" => some .netcdf364Data
  | _ => none

open Cfdm.NcStore in
def runDtype (kv : KV) : String :=
  match (do
    let fmt ← parseFmt (← kv.get? "fmt")
    let string ← parseBool kv "string"
    let m ← (← splitList (← kv.get? "map") ",").mapM (fun (t : String) => match t.splitOn ">" with
      | [a, b] => do some ((← parseDType a), (← parseDType b))
      | _ => none)
    let vars ← (← splitList (← kv.get? "vars") ",").mapM (fun (t : String) => match t.splitOn ":" with
      | [n, d, fl] => do
        let d ← if d == "-" then some none else (parseDType d).map some
        let fl ← if fl == "-" then some none else (parseDType fl).map some
        some (n, d, fl)
      | _ => none)
    some (fmt, string, m, vars)) with
  | none => "bad-op"
  | some (fmt, string, m, vars) =>
    String.intercalate ";" (vars.map (fun (n, d, fl) =>
      let ty := match datatype fmt string m d with
        | .vlenString => "str"
        | .code k sz => showKindC k ++ toString sz
      let fill := match fl with
        | none => "-"
        | some g => let t := fillDType m d g; showKindC t.kind ++ toString t.size
      n ++ "=" ++ ty ++ "/" ++ fill ++ "/" ++ toString (extraDims fmt string m d)))

def run (sub : String) (kv : KV) : String :=
  match sub with
  | "names" => runNames kv
  | "emit" => runEmit kv
  | "glob" => runGlob kv
  | "wf" => runWf kv
  | "field" => runField kv
  | "dtype" => runDtype kv
  | _ => "bad-op"

end Cfdm.Driver.C08
