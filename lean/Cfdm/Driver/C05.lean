import Cfdm.Driver.Parse
import Cfdm.Model.Equality
import Cfdm.Model.EqualityLeaf
/-
Driver for C05: `C05.eq o=<opts> x=<obj> y=<obj> same=<0|1>` → `True` / `False` /
`raised:<Exception>` / `unmodelled`;
an optional `iq=(interval?,(names…))` gives `ignore_qualifiers` of `CellMethod.equals`;
`C05.leaf o=(an,ad,rn,rd,k,idt,ifv) route=<data|value> x=<larr|ldata> y=<…>` → `True` / `False`
(the leaf array comparison as coded, reached through `Data.equals` or through a property /
parameter value).

Values are nested tuples `(a,b,(c,d))`; `_` is Python `None`, `--` a masked element.
-/
namespace Cfdm.Driver.C05
open Cfdm.Driver Cfdm.Equality

inductive Tree where
  | atom (s : String)
  | node (l : List Tree)
  deriving Inhabited

structure PState where
  stack : List (List Tree) := [[]]
  cur : String := ""
  ok : Bool := true

def PState.flush (st : PState) : PState :=
  if st.cur.isEmpty then st else
  match st.stack with
  | top :: rest => { st with stack := (Tree.atom st.cur :: top) :: rest, cur := "" }
  | [] => { st with ok := false }

def pstep (st : PState) (c : Char) : PState :=
  if !st.ok then st else
  if c == '(' then
    if st.cur.isEmpty then { st with stack := [] :: st.stack } else { st with ok := false }
  else if c == ')' then
    let st := st.flush
    match st.stack with
    | top :: parent :: rest => { st with stack := (Tree.node top.reverse :: parent) :: rest }
    | _ => { st with ok := false }
  else if c == ',' then st.flush
  else { st with cur := st.cur.push c }

def parseTree (s : String) : Option Tree :=
  let st := (s.foldl pstep {}).flush
  if !st.ok then none else
  match st.stack with
  | [[t]] => some t
  | _ => none

def Tree.nat? : Tree → Option Nat
  | .atom s => s.toNat?
  | _ => none
def Tree.int? : Tree → Option Int
  | .atom s => parseInt? s
  | _ => none
def Tree.bool? : Tree → Option Bool
  | .atom "1" => some true
  | .atom "0" => some false
  | _ => none
def Tree.list? : Tree → Option (List Tree)
  | .node l => some l
  | _ => none
def Tree.opt? {α} (f : Tree → Option α) : Tree → Option (Option α)
  | .atom "_" => some none
  | t => (f t).map some
def Tree.listOf? {α} (f : Tree → Option α) (t : Tree) : Option (List α) := do
  (← t.list?).mapM f

def optInt? : Tree → Option (Option Int)
  | .atom "--" => some none
  | t => t.int?.map some

def arr? (t : Tree) : Option Arr :=
  match t with
  | .node [sh, dt, st, vs] => do
    some { shape := ← sh.listOf? Tree.nat?, dtype := ← dt.nat?, isStr := ← st.bool?, vals := ← vs.listOf? optInt? }
  | _ => none

def props? (t : Tree) : Option Props :=
  t.listOf? (fun e => match e with
    | .node [k, v] => do some (← k.nat?, ← arr? v)
    | _ => none)

def data? (t : Tree) : Option Data :=
  match t with
  | .node [a, fill, units, cal, ct, ca] => do
    some { arr := ← arr? a, fill := ← fill.opt? Tree.int?, units := ← units.opt? Tree.nat?,
           calendar := ← cal.opt? Tree.nat?, ctype := ← ct.nat?, carr := ← arr? ca }
  | _ => none

def sub? (t : Tree) : Option Sub :=
  match t with
  | .node [p, d] => do some { props := ← props? p, data := ← d.opt? data? }
  | _ => none

def construct? (t : Tree) : Option Construct :=
  match t with
  | .node [.atom "C", cls, p, d, ext, ncv, geo, b, ir, ms] => do
    some { cls := ← cls.nat?, props := ← props? p, data := ← d.opt? data?, external := ← ext.bool?,
           ncvar := ← ncv.opt? Tree.nat?, geometry := ← geo.opt? Tree.nat?, bounds := ← b.opt? sub?,
           interiorRing := ← ir.opt? sub?, measure := ← ms.opt? Tree.nat? }
  | _ => none

def cellMethod? (t : Tree) : Option CellMethod :=
  match t with
  | .node [.atom "M", ax, m, q, iv] => do
    some { axes := ← ax.listOf? Tree.nat?, method := ← m.opt? Tree.nat?,
           quals := ← q.listOf? (fun e => match e with
             | .node [k, v] => do some (← k.nat?, ← v.nat?)
             | _ => none),
           intervals := ← iv.listOf? data? }
  | _ => none

def params? (t : Tree) : Option Params :=
  t.listOf? (fun e => match e with
    | .node [k, v] => do some (← k.nat?, ← v.opt? arr?)
    | _ => none)

def coordRef? (t : Tree) : Option CoordRef :=
  match t with
  | .node [.atom "R", cs, cp, ca, dp] => do
    some { coords := ← cs.listOf? Tree.nat?, convParams := ← params? cp,
           convAncils := ← ca.listOf? (fun e => match e with
             | .node [k, v] => do some (← k.nat?, ← v.opt? Tree.nat?)
             | _ => none),
           datumParams := ← params? dp }
  | _ => none

def entry? (t : Tree) : Option Entry :=
  match t with
  | .node [k, ax, c] => do some { key := ← k.nat?, axes := ← ax.listOf? Tree.nat?, c := ← construct? c }
  | _ => none

def field? (t : Tree) : Option Field :=
  match t with
  | .node [.atom "F", cls, p, d, dax, axes, cons, cms, refs] => do
    some { cls := ← cls.nat?, props := ← props? p, data := ← d.opt? data?,
           dataAxes := ← dax.listOf? Tree.nat?,
           axes := ← axes.listOf? (fun e => match e with
             | .node [k, v] => do some (← k.nat?, ← v.nat?)
             | _ => none),
           cons := ← cons.listOf? entry?,
           cms := ← cms.listOf? (fun e => match e with
             | .node [k, v] => do some (← k.nat?, ← cellMethod? v)
             | _ => none),
           refs := ← refs.listOf? (fun e => match e with
             | .node [k, v] => do some (← k.nat?, ← coordRef? v)
             | _ => none) }
  | _ => none

/-- Every kind of object the stream compares. -/
inductive Obj where
  | field (f : Field)
  | construct (c : Construct)
  | data (d : Data)
  | cellMethod (m : CellMethod)
  | coordRef (r : CoordRef)
  | domainAxis (size : Option Nat)
  | sub (cls : Nat) (s : Sub)
  | params (cls : Nat) (p : Params)
  /-- anything else (`int`, `str`, `None`, numpy array, …), by a tag -/
  | other (tag : Nat)

def obj? (t : Tree) : Option Obj :=
  match t with
  | .node (.atom "F" :: _) => (field? t).map .field
  | .node (.atom "C" :: _) => (construct? t).map .construct
  | .node [.atom "D", d] => (data? d).map .data
  | .node (.atom "M" :: _) => (cellMethod? t).map .cellMethod
  | .node (.atom "R" :: _) => (coordRef? t).map .coordRef
  | .node [.atom "X", s] => (s.opt? Tree.nat?).map .domainAxis
  | .node [.atom "S", cls, s] => do some (.sub (← cls.nat?) (← sub? s))
  | .node [.atom "P", cls, p] => do some (.params (← cls.nat?) (← params? p))
  | .node [.atom "O", tag] => tag.nat?.map .other
  | _ => none

def ignoreProps? (t : Tree) : Option IgnoreProps :=
  match t with
  | .atom "_" => some .absent
  | .node [.atom "s", v] => (v.opt? Tree.nat?).map .str
  | .node [.atom "t", l] => (l.listOf? Tree.nat?).map .tuple
  | .node [.atom "l", l] => (l.listOf? Tree.nat?).map .list
  | _ => none

def opts? (t : Tree) : Option Opts :=
  match t with
  | .node [an, ad, rn, rd, k, idt, ifv, ip, ic, it] => do
    some { close := tolClose (← an.nat?) (← ad.nat?) (← rn.nat?) (← rd.nat?) (← k.nat?),
           ignoreDataType := ← idt.bool?, ignoreFillValue := ← ifv.bool?, ignoreProps := ← ignoreProps? ip,
           ignoreCompression := ← ic.bool?, ignoreType := ← it.bool? }
  | _ => none

def showExn : Exn → String
  | .typeError => "raised:TypeError"
  | .valueError => "raised:ValueError"
  | .indexError => "raised:IndexError"
  | .attributeError => "raised:AttributeError"
  | .keyError => "raised:KeyError"
  | .unmodelled => "unmodelled"

def showR : Except Exn Bool → String
  | .ok true => "True"
  | .ok false => "False"
  | .error e => showExn e

/-- Objects of different kinds: `_equals_preprocess` answers `False`, or tries a
conversion that the model does not cover. -/
def otherKind (o : Opts) : Except Exn Bool := if o.ignoreType then .error .unmodelled else .ok false

def equalsTop (o : Opts) (iq : Bool × List Nat) (same : Bool) (x y : Obj) : Except Exn Bool :=
  -- `if self is other: return True`
  if same then .ok true else
  match x, y with
  | .field a, .field b => fieldEquals o a b
  | .construct a, .construct b => constructEquals o a b
  | .data a, .data b => dataObjEquals o a b
  | .cellMethod a, .cellMethod b => .ok (cellMethodCoreIQ o.close iq.2 iq.1 a b)
  | .coordRef a, .coordRef b => coordRefEquals o a b
  | .domainAxis a, .domainAxis b => domainAxisEquals a b
  | .sub c a, .sub d b => if c == d then subObjEquals o a b else otherKind o
  | .params c a, .params d b => if c == d then .ok (paramsEquals o.close a b) else otherKind o
  | _, _ => otherKind o

def runEq (kv : KV) : String :=
  match (do
    let o ← opts? (← parseTree (← kv.get? "o"))
    let x ← obj? (← parseTree (← kv.get? "x"))
    let y ← obj? (← parseTree (← kv.get? "y"))
    let same ← (match kv.get? "same" with | some "1" => some true | some "0" => some false | _ => none)
    let iq ← (match kv.get? "iq" with
      | none => some (false, [])
      | some t => match parseTree t with
        | some (.node [ii, l]) => do some (← ii.bool?, ← l.listOf? Tree.nat?)
        | _ => none)
    some (o, x, y, same, iq)) with
  | none => "bad-op"
  | some (o, x, y, same, iq) => showR (equalsTop o iq same x y)

/-! ### the leaf stream -/
open Cfdm.Equality.Leaf in
def val? : Tree → Option Val
  | .atom "nan" => some .nan
  | .atom "inf" => some .pinf
  | .atom "-inf" => some .ninf
  | .atom s =>
    if s.startsWith "s" then (parseInt? (s.drop 1).toString).map Val.tok
    else (parseInt? s).map Val.num
  | _ => none

open Cfdm.Equality.Leaf in
def kind? : Tree → Option Kind
  | .atom "0" => some .numeric
  | .atom "1" => some .str
  | .atom "2" => some .other
  | _ => none

open Cfdm.Equality.Leaf in
def larr? (t : Tree) : Option LArr :=
  match t with
  | .node [.atom "A", sh, dt, kd, ma, mk, vs] => do
    some { shape := ← sh.listOf? Tree.nat?, dtype := ← dt.nat?, kind := ← kind? kd, isMA := ← ma.bool?,
           mask := ← mk.opt? (fun m => m.listOf? Tree.bool?), vals := ← vs.listOf? val? }
  | _ => none

open Cfdm.Equality.Leaf in
def ldata? (t : Tree) : Option LData :=
  match t with
  | .node [.atom "D", a, fill, units, cal] => do
    some { arr := ← larr? a, fill := ← fill.opt? val?, units := ← units.opt? Tree.nat?, calendar := ← cal.opt? Tree.nat? }
  | _ => none

open Cfdm.Equality.Leaf in
/-- The records must be well-formed numpy arrays (sizes; no mask on a plain `ndarray`). -/
def larrOK (x : LArr) : Bool :=
  x.vals.length == x.shape.foldl (· * ·) 1
  && (match x.mask with | some m => m.length == x.vals.length && x.isMA | none => true)

open Cfdm.Equality.Leaf in
def runLeaf (kv : KV) : String :=
  match (do
    let ot ← parseTree (← kv.get? "o")
    let (an, ad, rn, rd, k, idt, ifv) ← (match ot with
      | .node [an, ad, rn, rd, k, idt, ifv] => do
        some (← an.nat?, ← ad.nat?, ← rn.nat?, ← rd.nat?, ← k.nat?, ← idt.bool?, ← ifv.bool?)
      | _ => none)
    let route ← kv.get? "route"
    let close := tolClose an ad rn rd k
    let rp := decide (0 < rn)
    if route == "data" then
      let x ← ldata? (← parseTree (← kv.get? "x"))
      let y ← ldata? (← parseTree (← kv.get? "y"))
      if larrOK x.arr && larrOK y.arr then some (dataLeafEquals close rp idt ifv x y) else none
    else if route == "value" then
      let x ← larr? (← parseTree (← kv.get? "x"))
      let y ← larr? (← parseTree (← kv.get? "y"))
      -- property and parameter values are compared with ignore_data_type=True
      if larrOK x && larrOK y then some (leafEquals close rp true x y) else none
    else none) with
  | none => "bad-op"
  | some true => "True"
  | some false => "False"

def run (sub : String) (kv : KV) : String :=
  match sub with
  | "eq" => runEq kv
  | "leaf" => runLeaf kv
  | _ => "bad-op"

end Cfdm.Driver.C05
