import Cfdm.Driver.Parse
import Cfdm.Model.Indexing
namespace Cfdm.Driver.C03
open Cfdm.Driver Cfdm.PySlice Cfdm.Indexing Cfdm.Arr

/-- `s:a:b:c` (with `_` for None) or `l:1,2,3` (`l:` = empty list). -/
def parseSel (s : String) : Option Sel :=
  match s.splitOn ":" with
  | ["s", a, b, c] => do
    let a ← parseOptInt? a; let b ← parseOptInt? b; let c ← parseOptInt? c
    some (.slice a b c)
  | ["l", body] =>
    if body.isEmpty then some (.list []) else
    ((body.splitOn ",").mapM parseInt?).map Sel.list
  | _ => none

def parseSels (s : String) : Option (List Sel) := parseListWith parseSel ';' s

/-- Raw user index: `i:k`, `s:a:b:c`, `l:…`, `b:1,0,1`, `e`. -/
def parseRaw (s : String) : Option RawIx :=
  match s.splitOn ":" with
  | ["e"] => some .ellipsis
  | ["i", k] => (parseInt? k).map RawIx.int
  | ["s", a, b, c] => do
    let a ← parseOptInt? a; let b ← parseOptInt? b; let c ← parseOptInt? c
    some (.slice a b c)
  | ["l", body] =>
    if body.isEmpty then some (.list []) else
    ((body.splitOn ",").mapM parseInt?).map RawIx.list
  | ["b", body] =>
    if body.isEmpty then some (.bool []) else
    ((body.splitOn ",").mapM (fun t => if t == "1" then some true else if t == "0" then some false else none)).map RawIx.bool
  | _ => none

def parseRaws (s : String) : Option (List RawIx) := parseListWith parseRaw ';' s

def selsWf (shape : List Nat) (sels : List Sel) : Bool :=
  sels.length == shape.length && (List.zipWith (fun s n => s.wf n) sels shape).all id

def positionsNat (shape : List Nat) (sels : List Sel) : List (List Nat) :=
  List.zipWith (fun s n => (s.positions n).map Int.toNat) sels shape

/-- `get`: shape and source flat offsets of the subspace. -/
def runGet (kv : KV) : String :=
  match (do
    let shape ← parseNatList (← kv.get? "shape")
    let raw ← parseRaws (← kv.get? "ix")
    some (shape, raw)) with
  | none => "bad-op"
  | some (shape, raw) =>
    match parseIndices shape raw with
    | .error e => "raised:" ++ e
    | .ok sels =>
    if !selsWf shape sels then "rejected" else
    let ps := positionsNat shape sels
    -- list axes first (as the code does), then the rest; the theorem says any order
    let listAxes := (List.range sels.length).filter (fun k => match sels[k]? with | some (.list _) => true | _ => false)
    let other := (List.range sels.length).filter (fun k => !listAxes.contains k)
    let B := seqTake (iota shape) ps (listAxes ++ other)
    s!"shape={showNatList B.shape} src={showNatList (toList B)}"

/-- Per-axis groups of (target position, value index along that axis), in the
order `_set_subspace` performs them.  `m` = extent of the value along this axis
(`none` = the value has no such axis or extent 1: broadcast). -/
def axisGroups (pairwise : Bool) (n : Nat) (sel : Sel) (m : Option Nat) : List (List (Nat × Nat)) :=
  let bc (ps : List Int) (off : Nat) : List (Nat × Nat) :=
    match m with
    | none => ps.map (fun p => (p.toNat, 0))
    | some _ => (ps.zip (List.range ps.length)).map (fun (p, i) => (p.toNat, i + off))
  match sel, pairwise with
  | .list l, true =>
    let pcs := pairPieces n l
    (pcs.zip (valueSlices 0 pcs)).map (fun (pc, v) =>
      match m with
      | none => (pc.positions n).map (fun p => (p.toNat, 0))
      | some mm => (pieceWrites n mm pc v).map (fun (p, i) => (p.toNat, i)))
  | s, _ => [bc (s.positions n) 0]

/-- `set`: for each target element (row-major) the flat offset into the value
that ends up there, or `-` if untouched.  The value is right-aligned against
the array axes (numpy broadcasting). -/
def runSet (kv : KV) : String :=
  match (do
    let shape ← parseNatList (← kv.get? "shape")
    let raw ← parseRaws (← kv.get? "ix")
    let vshape ← parseNatList (← kv.get? "vshape")
    some (shape, raw, vshape)) with
  | none => "bad-op"
  | some (shape, raw, vshape) =>
    match parseIndices shape raw with
    | .error e => "raised:" ++ e
    | .ok sels =>
    if !selsWf shape sels then "rejected" else
    let nd := shape.length
    if vshape.length > nd then "rejected" else
    let pad := nd - vshape.length
    let vext : List (Option Nat) := (List.range nd).map (fun k =>
      if k < pad then none else match vshape[k - pad]? with
        | some 1 => none | some e => some e | none => none)
    -- broadcast check: a value extent ≠ 1 must equal the selection extent
    let selLens := List.zipWith (fun s n => (s.positions n).length) sels shape
    let okb := (List.zipWith (fun e l => match e with | none => true | some e => e == l) vext selLens).all id
    if !okb then "rejected" else
    let nlist := (sels.filter (fun s => match s with | .list _ => true | _ => false)).length
    let pairwise := decide (2 ≤ nlist)
    let groups : List (List (List (Nat × Nat))) :=
      (List.range nd).map (fun k => axisGroups pairwise (shape.getD k 0) (sels.getD k (.list [])) (vext.getD k none))
    -- the order of writes: product over pieces, then product over positions inside
    let writes : List (List (Nat × Nat)) :=
      (product groups).flatMap (fun pieceTuple => product pieceTuple)
    let vshapeFull := (List.range nd).map (fun k => match vext.getD k none with | none => 1 | some e => e)
    let size := shape.foldl (· * ·) 1
    let init : Array (Option Nat) := Array.replicate size none
    let final := writes.foldl (fun (acc : Array (Option Nat)) w =>
      let t := ravel shape (w.map (·.1))
      let v := ravel vshapeFull (w.map (·.2))
      acc.set! t (some v)) init
    s!"tgt={showOptNatList final.toList}"

/-- Bounds reversal decision for a selector on axis 0 of a 1-d coordinate. -/
def runBrev (kv : KV) : String :=
  match (do
    let n ← (← kv.get? "n").toNat?
    let sel ← parseSel (← kv.get? "sel")
    some (n, sel)) with
  | none => "bad-op"
  | some (n, sel) =>
    if !sel.wf n then "rejected" else
    -- `PropertiesData.__getitem__` rejects a size-0 result
    if (sel.positions n).isEmpty then "raised:IndexError" else
    let sel' := match sel with
      | .list l => Sel.list (l.map (norm n))
      | s => s
    s!"reversed={boundsReversed sel'}"

def run (sub : String) (kv : KV) : String :=
  match sub with
  | "get" => runGet kv
  | "set" => runSet kv
  | "brev" => runBrev kv
  | _ => "bad-op"

end Cfdm.Driver.C03
