import Cfdm.Driver.Parse
import Cfdm.Model.Indexing
import Cfdm.Model.IndexBackend
import Cfdm.Model.FieldSubspace
namespace Cfdm.Driver.C03
open Cfdm.Driver Cfdm.PySlice Cfdm.Indexing Cfdm.Arr

/-- `s:a:b:c` (with `_` for None) or `l:1,2,3` (`l:` = empty list). -/
def parseSel (s : String) : Option Sel :=
  match s.splitOn ":" with
  | ["s", a, b, c] => do
    let a ← parseOptInt? a; let b ← parseOptInt? b; let c ← parseOptInt? c
    some (.slice a b c)
  | ["l", body] =>
    if body.isEmpty then some (.list []) else
    ((body.splitOn ",").mapM parseInt?).map Sel.list
  | _ => none

def parseSels (s : String) : Option (List Sel) := parseListWith parseSel ';' s

/-- Raw user index: `i:k`, `s:a:b:c`, `l:…`, `b:1,0,1`, `e`. -/
def parseRaw (s : String) : Option RawIx :=
  match s.splitOn ":" with
  | ["e"] => some .ellipsis
  | ["i", k] => (parseInt? k).map RawIx.int
  | ["s", a, b, c] => do
    let a ← parseOptInt? a; let b ← parseOptInt? b; let c ← parseOptInt? c
    some (.slice a b c)
  | ["l", body] =>
    if body.isEmpty then some (.list []) else
    ((body.splitOn ",").mapM parseInt?).map RawIx.list
  | ["b", body] =>
    if body.isEmpty then some (.bool []) else
    ((body.splitOn ",").mapM (fun t => if t == "1" then some true else if t == "0" then some false else none)).map RawIx.bool
  | _ => none

def parseRaws (s : String) : Option (List RawIx) := parseListWith parseRaw ';' s

def selsWf (shape : List Nat) (sels : List Sel) : Bool :=
  sels.length == shape.length && (List.zipWith (fun s n => s.wf n) sels shape).all id

def positionsNat (shape : List Nat) (sels : List Sel) : List (List Nat) :=
  List.zipWith (fun s n => (s.positions n).map Int.toNat) sels shape

/-- Source offsets with the mask rule of the harness applied: with `mmod = k > 0` the element
whose source offset `o` satisfies `o % k = k - 1` is masked (`--`). -/
def showSrc (mmod : Nat) (l : List Nat) : String :=
  "[" ++ String.intercalate "," (l.map (fun o =>
    if mmod > 0 && o % mmod == mmod - 1 then "--" else toString o)) ++ "]"

def optNat (kv : KV) (k : String) : Option Nat :=
  match kv.get? k with
  | none => some 0
  | some v => v.toNat?

/-- `get`: shape and source flat offsets of the subspace. -/
def runGet (kv : KV) : String :=
  match (do
    let shape ← parseNatList (← kv.get? "shape")
    let raw ← parseRaws (← kv.get? "ix")
    let mmod ← optNat kv "mmod"
    some (shape, raw, mmod)) with
  | none => "bad-op"
  | some (shape, raw, mmod) =>
    match parseIndices shape raw with
    | .error e => "raised:" ++ e
    | .ok sels =>
    if !selsWf shape sels then "rejected" else
    let ps := positionsNat shape sels
    -- list axes first (as the code does), then the rest; the theorem says any order
    let listAxes := (List.range sels.length).filter (fun k => match sels[k]? with | some (.list _) => true | _ => false)
    let other := (List.range sels.length).filter (fun k => !listAxes.contains k)
    let B := seqTake (iota shape) ps (listAxes ++ other)
    s!"shape={showNatList B.shape} src={showSrc mmod (toList B)}"

/-- Per-axis groups of (target position, value index along that axis), in the
order `_set_subspace` performs them.  `m` = extent of the value along this axis
(`none` = the value has no such axis or extent 1: broadcast). -/
def axisGroups (pairwise : Bool) (n : Nat) (sel : Sel) (m : Option Nat) : List (List (Nat × Nat)) :=
  let bc (ps : List Int) (off : Nat) : List (Nat × Nat) :=
    match m with
    | none => ps.map (fun p => (p.toNat, 0))
    | some _ => (ps.zip (List.range ps.length)).map (fun (p, i) => (p.toNat, i + off))
  match sel, pairwise with
  | .list l, true =>
    let pcs := pairPieces n l
    (pcs.zip (valueSlices 0 pcs)).map (fun (pc, v) =>
      match m with
      | none => (pc.positions n).map (fun p => (p.toNat, 0))
      | some mm => (pieceWrites n mm pc v).map (fun (p, i) => (p.toNat, i)))
  | s, _ => [bc (s.positions n) 0]

/-- `set`: for each target element (row-major) the flat offset into the value
that ends up there, or `-` if untouched.  The value is right-aligned against
the array axes (numpy broadcasting). -/
def runSet (kv : KV) : String :=
  match (do
    let shape ← parseNatList (← kv.get? "shape")
    let raw ← parseRaws (← kv.get? "ix")
    let vshape ← parseNatList (← kv.get? "vshape")
    let tmmod ← optNat kv "tmmod"
    let vmmod ← optNat kv "vmmod"
    let hard ← optNat kv "hard"
    some (shape, raw, vshape, tmmod, vmmod, hard)) with
  | none => "bad-op"
  | some (shape, raw, vshape, tmmod, vmmod, hard) =>
    match parseIndices shape raw with
    | .error e => "raised:" ++ e
    | .ok sels =>
    if !selsWf shape sels then "rejected" else
    let nd := shape.length
    if vshape.length > nd then "rejected" else
    let pad := nd - vshape.length
    let vext : List (Option Nat) := (List.range nd).map (fun k =>
      if k < pad then none else match vshape[k - pad]? with
        | some 1 => none | some e => some e | none => none)
    -- broadcast check: a value extent ≠ 1 must equal the selection extent
    let selLens := List.zipWith (fun s n => (s.positions n).length) sels shape
    let okb := (List.zipWith (fun e l => match e with | none => true | some e => e == l) vext selLens).all id
    if !okb then "rejected" else
    let nlist := (sels.filter (fun s => match s with | .list _ => true | _ => false)).length
    let pairwise := decide (2 ≤ nlist)
    let groups : List (List (List (Nat × Nat))) :=
      (List.range nd).map (fun k => axisGroups pairwise (shape.getD k 0) (sels.getD k (.list [])) (vext.getD k none))
    -- the order of writes: product over pieces, then product over positions inside
    let writes : List (List (Nat × Nat)) :=
      (product groups).flatMap (fun pieceTuple => product pieceTuple)
    let vshapeFull := (List.range nd).map (fun k => match vext.getD k none with | none => 1 | some e => e)
    let size := shape.foldl (· * ·) 1
    -- masks (numpy.ma semantics, element by element): with `tmmod = k > 0` the target element
    -- at flat offset `t` starts masked iff `t % k = k - 1`; likewise the value element `v` with
    -- `vmmod`.  A write replaces value AND mask; under a hard mask a masked target is left alone.
    let rule (k o : Nat) : Bool := k > 0 && o % k == k - 1
    let init : Array (Option Nat × Bool) := (Array.range size).map (fun t => (none, rule tmmod t))
    let final := writes.foldl (fun (acc : Array (Option Nat × Bool)) w =>
      let t := ravel shape (w.map (·.1))
      let v := ravel vshapeFull (w.map (·.2))
      let cur := acc.getD t (none, false)
      if hard != 0 && cur.2 then acc else acc.set! t (some v, rule vmmod v)) init
    let toks := final.toList.map (fun (e : Option Nat × Bool) =>
      if e.2 then "--" else match e.1 with | none => "-" | some v => toString v)
    "tgt=[" ++ String.intercalate "," toks ++ "]"

/-- Bounds reversal decision for a selector on axis 0 of a 1-d coordinate. -/
def runBrev (kv : KV) : String :=
  match (do
    let n ← (← kv.get? "n").toNat?
    let sel ← parseSel (← kv.get? "sel")
    some (n, sel)) with
  | none => "bad-op"
  | some (n, sel) =>
    if !sel.wf n then "rejected" else
    -- `PropertiesData.__getitem__` rejects a size-0 result
    if (sel.positions n).isEmpty then "raised:IndexError" else
    let sel' := match sel with
      | .list l => Sel.list (l.map (norm n))
      | s => s
    s!"reversed={boundsReversed sel'}"

/-- `geth5`: the same observable as `get`, evaluated through the model of `netcdf_indexer._index`
on a variable that is NOT natively orthogonal (h5netcdf): `_variable_subspace` (negative steps
and unsorted lists converted to an acceptable read + re-order) with at most one sequence index,
the remaining sequence indices one at a time in memory. -/
def runGetH5 (kv : KV) : String :=
  match (do
    let shape ← parseNatList (← kv.get? "shape")
    let raw ← parseRaws (← kv.get? "ix")
    let mmod ← optNat kv "mmod"
    some (shape, raw, mmod)) with
  | none => "bad-op"
  | some (shape, raw, mmod) =>
    match parseIndices shape raw with
    | .error e => "raised:" ++ e
    | .ok sels =>
    if !selsWf shape sels then "rejected" else
    let listAxes := (List.range sels.length).filter (fun k => IndexBackend.isList (sels.getD k (.slice none none none)))
    let B := match listAxes with
      | [] => IndexBackend.variableSubspace (iota shape) sels
      | [_] => IndexBackend.variableSubspace (iota shape) sels
      | first :: rest => IndexBackend.indexNonOrth (iota shape) sels first rest
    s!"shape={showNatList B.shape} src={showSrc mmod (toList B)}"

/-- What `_variable_subspace` hands to the library for one axis (level-2 stream: an intermediate,
never part of the pass/fail diff). -/
def runConv (kv : KV) : String :=
  match (do
    let n ← (← kv.get? "n").toNat?
    let sel ← parseSel (← kv.get? "sel")
    some (n, sel)) with
  | none => "bad-op"
  | some (n, sel) =>
    if !sel.wf n then "rejected" else
    let ar := IndexBackend.convSel n sel
    s!"read={showNatList (IndexBackend.posNat n ar.read)} ok={IndexBackend.h5Accepts n ar.read} got={showNatList (IndexBackend.delivered n ar)}"

section FieldStream
open Cfdm.FieldSubspace

/-- `key|axis,axis|trailing bounds dims or -|ring parts (0 = none)`. -/
def parseConstruct (axes : List (String × Nat)) (s : String) : Option (Construct Nat) :=
  match s.splitOn "|" with
  | [key, ax, b, r] => do
    let caxes := if ax.isEmpty then [] else ax.splitOn ","
    let cshape := caxes.map (sizeOf axes)
    let bounds ← if b == "-" then some none else do
      let tr ← (b.splitOn ",").mapM String.toNat?
      some (some (iota (cshape ++ tr)))
    let np ← r.toNat?
    let ring := if np == 0 then none else some (iota (cshape ++ [np]))
    some { key := key, axes := caxes, data := iota cshape, bounds := bounds, ring := ring }
  | _ => none

def parseAxis (s : String) : Option (String × Nat) :=
  match s.splitOn ":" with
  | [k, n] => n.toNat?.map (fun m => (k, m))
  | _ => none

def showArr (mmod : Nat) (A : Arr Nat) : String := s!"{showNatList A.shape}:{showSrc mmod (toList A)}"
def showOptArr (mmod : Nat) (o : Option (Arr Nat)) : String :=
  match o with | none => "-" | some A => showArr mmod A

/-- `field`: `Field.__getitem__` on an abstract field whose arrays hold their own flat offsets. -/
def runField (kv : KV) : String :=
  match (do
    let axes ← parseListWith parseAxis ';' (← kv.get? "axes")
    let dax ← stripBrackets (← kv.get? "daxes")
    let daxes := if dax.isEmpty then [] else dax.splitOn ","
    let cons ← parseListWith (parseConstruct axes) ';' (← kv.get? "cons")
    let raw ← parseRaws (← kv.get? "ix")
    let mmod ← optNat kv "mmod"
    let f : Cfdm.FieldSubspace.Field Nat :=
      { axes := axes, dataAxes := daxes, data := iota (daxes.map (sizeOf axes)), constructs := cons }
    some (f, raw, mmod)) with
  | none => "bad-op"
  | some (f, raw, mmod) =>
    match subspaceField f raw with
    | .error e => "raised:" ++ e
    | .ok g =>
      let cs := g.constructs.map (fun (c : Construct Nat) =>
        s!"{c.key}={showArr mmod c.data}:b{showOptArr mmod c.bounds}:r{showOptArr mmod c.ring}")
      s!"sizes={showNatList (g.axes.map Prod.snd)} data={showArr mmod g.data} " ++ String.intercalate " " cs
end FieldStream

/-- `ishape`: `netcdf_indexer.index_shape` of the parsed tuple (an intermediate: level 2). -/
def runIShape (kv : KV) : String :=
  match (do
    let shape ← parseNatList (← kv.get? "shape")
    let raw ← parseRaws (← kv.get? "ix")
    some (shape, raw)) with
  | none => "bad-op"
  | some (shape, raw) =>
    match parseIndices shape raw with
    | .error e => "raised:" ++ e
    | .ok sels =>
    if !selsWf shape sels then "rejected" else
    s!"ishape={showNatList (indexShape shape sels)}"

def run (sub : String) (kv : KV) : String :=
  match sub with
  | "ishape" => runIShape kv
  | "get" => runGet kv
  | "geth5" => runGetH5 kv
  | "conv" => runConv kv
  | "set" => runSet kv
  | "brev" => runBrev kv
  | "field" => runField kv
  | _ => "bad-op"

end Cfdm.Driver.C03
