import Cfdm.Driver.Parse
import Cfdm.Model.Select
/-
Line protocol of C18 (strings are hex of their UTF-8 bytes; `-` absent, `.` empty list).

  C18.sel cs=<rec;rec;…> fa=<axes> prog=<step+step+…>      → keys=[k1,k2,…]   (sorted)
  C18.acc cs=… fa=… acc=<name> ids=<q,q> flts=[flt;flt] def=all|none|val|exc → keys=[…] | key=<k> | default | raised:ValueError
  C18.dax cs=… fa=… ids=<q,q> flts=[flt;flt] def=all|none|val|exc   → keys=[…] | key=<k> | default | raised:ValueError
  C18.cm  cs=… fa=… ids=<q,q> flts=[flt;flt] def=all|none|val|exc   → (Field.cell_methods / cell_method) same outputs

  C18.dak cs=… fa=… ids=<q,q> flts=[flt;flt] def=none|val|exc      → (domain_axis_key) key=<k> | default | raised:ValueError

  rec  = key|type|pre|body|post|props|axes|size|measure|method|ncvar|ncdim|cmaxes|cell|connectivity
  props = <hexname>:<pv>,…   pv = s<hex> | n<dtype>/<0|1 scalar>/<int_int_…>
  q    = s:<hex> | i:<int> | n:<dtype>/<0|1>/<int_int_…> | p:<alt>/<alt>…   alt = <hex> (search) | ^<hex> (prefix)
  flt  = id~q,… | ty~name,… | key~q,… | pr~and|or~<hexname>:<q|->,… | ax~and|or|exact|subset~q,…
       | nx~n,… | sz~n,… | ms~q,… | mt~q,… | nv~q,… | nd~q,… | cl~q,… | cn~q,… | da
  step = F0[flt;…] | F1[flt;…] (filter(**kw), todict 0/1) | M0[flt] | M1[flt] (filter_by_x(...))
       | I_ | I<n> (inverse_filter) | U_ | U<n> (unfilter)
-/
namespace Cfdm.Driver.C18
open Cfdm.Driver Cfdm.Select

def hexVal (c : Char) : Option Nat :=
  if '0' ≤ c ∧ c ≤ '9' then some (c.toNat - '0'.toNat)
  else if 'a' ≤ c ∧ c ≤ 'f' then some (c.toNat - 'a'.toNat + 10)
  else none

def unhexL : List Char → Option (List Char)
  | [] => some []
  | [_] => none
  | a :: b :: rest => do
    let x ← hexVal a
    let y ← hexVal b
    let r ← unhexL rest
    some (Char.ofNat (16 * x + y) :: r)

def unhex (s : String) : Option String := (unhexL s.toList).map String.ofList

/-- `.` = empty list, otherwise `sep`-separated items. -/
def parseItems {α} (f : String → Option α) (sep : String) (s : String) : Option (List α) :=
  if s == "." then some [] else (s.splitOn sep).mapM f

def parseCType (s : String) : Option CType :=
  match s with
  | "domain_axis" => some .domain_axis
  | "dimension_coordinate" => some .dimension_coordinate
  | "auxiliary_coordinate" => some .auxiliary_coordinate
  | "cell_measure" => some .cell_measure
  | "domain_ancillary" => some .domain_ancillary
  | "field_ancillary" => some .field_ancillary
  | "cell_method" => some .cell_method
  | "coordinate_reference" => some .coordinate_reference
  | "domain_topology" => some .domain_topology
  | "cell_connectivity" => some .cell_connectivity
  | _ => none

/-- split on the first occurrence of `sep` -/
def split1 (s : String) (sep : String) : Option (String × String) :=
  match s.splitOn sep with
  | a :: b :: rest => some (a, String.intercalate sep (b :: rest))
  | _ => none

def parseOptStr (s : String) : Option (Option String) :=
  if s == "-" then some none
  else if s.startsWith "s" then (unhex (s.drop 1).toString).map some
  else none

/-- `!` no accessor, `-` unset, `s<hex>` -/
def parseNc (s : String) : Option (Bool × Option String) :=
  if s == "!" then some (false, none) else (parseOptStr s).map fun v => (true, v)

/-- `<dtype>/<0|1>/<int_int_…>` -/
def parseNum (s : String) : Option (String × Bool × List Int) :=
  match s.splitOn "/" with
  | [dt, sc, vs] => do
    let sc ← if sc == "1" then some true else if sc == "0" then some false else none
    let vs ← if vs.isEmpty then some [] else (vs.splitOn "_").mapM parseInt?
    some (dt, sc, vs)
  | _ => none

def parsePV (s : String) : Option PV :=
  if s.startsWith "s" then (unhex (s.drop 1).toString).map PV.str
  else if s.startsWith "n" then (parseNum (s.drop 1).toString).map fun r => PV.num r.1 r.2.1 r.2.2
  else none

def parseProp (s : String) : Option (String × PV) := do
  let (a, b) ← split1 s ":"
  some (← unhex a, ← parsePV b)

def parseRec (s : String) : Option Construct :=
  match s.splitOn "|" with
  | [key, ty, pre, body, post, props, axes, size, measure, method, ncvar, ncdim, cmaxes, cell, conn] => do
    let ty ← parseCType ty
    let pre ← parseItems unhex "," pre
    let body ← parseItems unhex "," body
    let post ← parseItems unhex "," post
    let (hasProps, props) ←
      if props == "-" then some (false, []) else (parseItems parseProp "," props).map fun p => (true, p)
    let axes ← if axes == "-" then some none else (parseItems some "," axes).map some
    let size ← if size == "-" then some none else size.toNat?.map some
    let measure ← parseOptStr measure
    let method ← parseOptStr method
    let (hasNcvar, ncvar) ← parseNc ncvar
    let (hasNcdim, ncdim) ← parseNc ncdim
    let cmaxes ← if cmaxes == "-" then some none else (parseItems unhex "," cmaxes).map some
    let cell ← parseOptStr cell
    let conn ← parseOptStr conn
    some { key := key, ctype := ty, idPre := pre, idBody := body, idPost := post,
           hasProps := hasProps, props := props, axes := axes, cmAxes := cmaxes, size := size,
           measure := measure, method := method, cell := cell, connectivity := conn, hasNcvar := hasNcvar, ncvar := ncvar,
           hasNcdim := hasNcdim, ncdim := ncdim }
  | _ => none

def parseAlt (s : String) : Option (Bool × String) :=
  if s.startsWith "^" then (unhex (s.drop 1).toString).map fun l => (true, l)
  else (unhex s).map fun l => (false, l)

def parseQ (s : String) : Option Q := do
  let (k, body) ← split1 s ":"
  match k with
  | "s" => (unhex body).map Q.str
  | "i" => (parseInt? body).map Q.int
  | "n" => (parseNum body).map fun r => Q.num r.1 r.2.1 r.2.2
  | "p" => ((body.splitOn "/").mapM parseAlt).map Q.pat
  | _ => none

/-- an empty argument list is the empty string -/
def parseQs (s : String) : Option (List Q) :=
  if s.isEmpty then some [] else (s.splitOn ",").mapM parseQ

def parseNats (s : String) : Option (List Nat) :=
  if s.isEmpty then some [] else (s.splitOn ",").mapM String.toNat?

def parsePropQ (s : String) : Option (String × Option Q) := do
  let (a, b) ← split1 s ":"
  let name ← unhex a
  if b == "-" then some (name, none) else (parseQ b).map fun q => (name, some q)

def parseMode (s : String) : Option AxisMode :=
  match s with
  | "and" => some .and
  | "or" => some .or
  | "exact" => some .exact
  | "subset" => some .subset
  | _ => none

def parseFilter (s : String) : Option Filter :=
  if s == "da" then some .data else do
  let (name, args) ← split1 s "~"
  match name with
  | "id" => (parseQs args).map Filter.identity
  | "ty" => (if args.isEmpty then some [] else (args.splitOn ",").mapM parseCType).map Filter.type
  | "key" => (parseQs args).map Filter.key
  | "pr" => do
    let (m, rest) ← split1 args "~"
    let isOr ← if m == "or" then some true else if m == "and" then some false else none
    let ps ← if rest.isEmpty then some [] else (rest.splitOn ",").mapM parsePropQ
    some (.property isOr ps)
  | "ax" => do
    let (m, rest) ← split1 args "~"
    some (.axis (← parseMode m) (← parseQs rest))
  | "nx" => (parseNats args).map Filter.naxes
  | "sz" => (parseNats args).map Filter.size
  | "ms" => (parseQs args).map Filter.measure
  | "mt" => (parseQs args).map Filter.method
  | "nv" => (parseQs args).map Filter.ncvar
  | "nd" => (parseQs args).map Filter.ncdim
  | "cl" => (parseQs args).map Filter.cell
  | "cn" => (parseQs args).map Filter.connectivity
  | _ => none

def parseFilters (s : String) : Option (List Filter) := do
  let inner ← stripBrackets s
  if inner.isEmpty then some [] else (inner.splitOn ";").mapM parseFilter

inductive Step where
  | filt (dict : Bool) (fs : List Filter)
  | meth (dict : Bool) (f : Filter)
  | inv (d : Option Nat)
  | unf (d : Option Nat)

def parseDepth (s : String) : Option (Option Nat) :=
  if s == "_" then some none else s.toNat?.map some

def parseStep (s : String) : Option Step :=
  if s.startsWith "F0" then (parseFilters (s.drop 2).toString).map (Step.filt false)
  else if s.startsWith "F1" then (parseFilters (s.drop 2).toString).map (Step.filt true)
  else if s.startsWith "M0" || s.startsWith "M1" then
    match parseFilters (s.drop 2).toString with
    | some [f] => some (.meth (s.startsWith "M1") f)
    | _ => none
  else if s.startsWith "I" then (parseDepth (s.drop 1).toString).map Step.inv
  else if s.startsWith "U" then (parseDepth (s.drop 1).toString).map Step.unf
  else none

def insertSorted (x : String) : List String → List String
  | [] => [x]
  | y :: ys => if x < y then x :: y :: ys else y :: insertSorted x ys

def sortStrings (l : List String) : List String := l.foldr insertSorted []

def showKeys (cs : List Construct) : String :=
  "keys=[" ++ String.intercalate "," (sortStrings (cs.map (·.key))) ++ "]"

def parseCtx (kv : KV) : Option Ctx := do
  let cs ← parseItems parseRec ";" (← kv.get? "cs")
  let fa ← kv.get? "fa"
  let fa ← if fa == "-" then some [] else parseItems some "," fa
  some ⟨cs, fa⟩

/-- Run the steps; `none` = a step after a dictionary result (not a program). -/
def runSteps (ctx : Ctx) : List Step → Coll → Option (List Construct)
  | [], c => some c.items
  | .filt false fs :: rest, c => runSteps ctx rest (runOp ctx (.filt fs) c)
  | .filt true fs :: rest, c => if rest.isEmpty then some (chainDict ctx fs c.items) else none
  | .meth false f :: rest, c => runSteps ctx rest (runOp ctx (.meth f) c)
  | .meth true f :: rest, c => if rest.isEmpty then some (runFilter true ctx ctx.base f c.items) else none
  | .inv d :: rest, c => runSteps ctx rest (runOp ctx (.inv d) c)
  | .unf d :: rest, c => runSteps ctx rest (runOp ctx (.unf d) c)

def runSel (kv : KV) : String :=
  match (do
    let ctx ← parseCtx kv
    let prog ← kv.get? "prog"
    let steps ← if prog == "." then some [] else (prog.splitOn "+").mapM parseStep
    some (ctx, steps)) with
  | none => "bad-op"
  | some (ctx, steps) =>
    match runSteps ctx steps (Coll.ofBase ctx.base) with
    | none => "bad-op"
    | some cs => showKeys cs

def parseDefault (s : String) : Option Default :=
  match s with
  | "none" => some .none
  | "val" => some .value
  | "exc" => some .exc
  | _ => none

def showRet : Ret → String
  | .found k => "key=" ++ k
  | .default => "default"
  | .raised => "raised:ValueError"

def runAcc (kv : KV) : String :=
  match (do
    let ctx ← parseCtx kv
    let ts ← accessorTypes (← kv.get? "acc")
    let ids ← parseQs (← kv.get? "ids")
    let fs ← parseFilters (← kv.get? "flts")
    let d ← kv.get? "def"
    some (ctx, ts, ids, fs, d)) with
  | none => "bad-op"
  | some (ctx, ts, ids, fs, d) =>
    if d == "all" then showKeys (accessorAll ctx ts ids fs) else
    match parseDefault d with
    | none => "bad-op"
    | some d => showRet (accessor ctx ts ids fs d)

/-- `domain_axes` / `cell_methods` (and their single-construct forms) -/
def runRoute (sel : Ctx → List Q → List Filter → List Construct) (kv : KV) : String :=
  match (do
    let ctx ← parseCtx kv
    let ids ← parseQs (← kv.get? "ids")
    let fs ← parseFilters (← kv.get? "flts")
    let d ← kv.get? "def"
    some (ctx, ids, fs, d)) with
  | none => "bad-op"
  | some (ctx, ids, fs, d) =>
    if d == "all" then showKeys (sel ctx ids fs) else
    match parseDefault d with
    | none => "bad-op"
    | some d => showRet (returnConstruct (sel ctx ids fs) d)

def runDak (kv : KV) : String :=
  match (do
    let ctx ← parseCtx kv
    let ids ← parseQs (← kv.get? "ids")
    let fs ← parseFilters (← kv.get? "flts")
    let d ← parseDefault (← kv.get? "def")
    some (ctx, ids, fs, d)) with
  | none => "bad-op"
  | some (ctx, ids, fs, d) => showRet (domainAxisKey ctx ids fs d)

def run (sub : String) (kv : KV) : String :=
  match sub with
  | "sel" => runSel kv
  | "acc" => runAcc kv
  | "dax" => runRoute domainAxes kv
  | "cm" => runRoute cellMethods kv
  | "dak" => runDak kv
  | _ => "bad-op"

end Cfdm.Driver.C18
