import Cfdm.Driver.Parse
import Cfdm.Model.Files
import Cfdm.Model.FilesTree
import Cfdm.Model.FilesPath
/-
Line protocol of C10.

  C10.hist init=<regs> ops=<ops> fs=<fs> items=<items> target=<n> mode=<w|a> ow=<0|1> ext=<n|-> fault=<none|pre|emit:i> omit=<0|1>

  answer: `<patched>#<unpatched>`; each half is
     <op results ';'-separated> '|' <outcome> '|' <file states ','-separated> ['|why=' tag]

Syntax (no blanks).  Name sets: `0.1`, empty `-`.
  anc    own~dOwn~dFiles                 list: '+'-separated, empty `_`
  data   own^files^ancils                absent `!`
  holder own%data                        absent `!`
  cons   key,ctype,own,data,bounds,ring,axes,ext,refCoords,refAncs       list ';'-separated, empty `-`
  field  D|own|data|dataAxes|axes|cons   D = F or D;  axes `a0:5.a1:8`
  regs   '/'-separated
  ops    ';'-separated, fields ':'-separated (see `parseOp`)
  fs     `0=f,1=f,4=l0`  (f regular file, l<n> link to n)
  items  `2,0d`  (register, `d` = its domain view)
-/
namespace Cfdm.Driver.C10
open Cfdm.Driver Cfdm.Files

def parseNames (s : String) : Option (List Name) :=
  if s == "-" then some [] else (s.splitOn ".").mapM String.toNat?

def parseStrs (s : String) : Option (List String) :=
  if s == "-" then some [] else some (s.splitOn ".")

def parseAnc (s : String) : Option Anc :=
  match s.splitOn "~" with
  | [a, b, c] => do some { own := ← parseNames a, dOwn := ← parseNames b, dFiles := ← parseNames c }
  | _ => none

def parseData (s : String) : Option (Option DataM) :=
  if s == "!" then some none else
  match s.splitOn "^" with
  | [a, b, c] => do
    let anc ← if c == "_" then some [] else (c.splitOn "+").mapM parseAnc
    some (some { own := ← parseNames a, files := ← parseNames b, ancils := anc })
  | _ => none

def parseHolder (s : String) : Option (Option Holder) :=
  if s == "!" then some none else
  match s.splitOn "%" with
  | [a, b] => do some (some { own := ← parseNames a, data := ← parseData b })
  | _ => none

def parseCType (s : String) : Option CType :=
  match s with
  | "dim" => some .dim | "aux" => some .aux | "msr" => some .msr | "fanc" => some .fanc
  | "danc" => some .danc | "topo" => some .topo | "conn" => some .conn | "ref" => some .ref
  | _ => none

def parseBool (s : String) : Option Bool :=
  if s == "1" then some true else if s == "0" then some false else none

def parseCons (s : String) : Option Cons :=
  match s.splitOn "," with
  | [k, t, own, d, b, r, ax, ext, rc, ra] => do
    some { key := k, ctype := ← parseCType t, own := ← parseNames own, data := ← parseData d,
           bounds := ← parseHolder b, ring := ← parseHolder r, axes := ← parseStrs ax,
           external := ← parseBool ext, refCoords := ← parseStrs rc, refAncs := ← parseStrs ra }
  | _ => none

def parseAxes (s : String) : Option (List (String × Nat)) :=
  if s == "-" then some [] else
  (s.splitOn ".").mapM (fun t => match t.splitOn ":" with
    | [a, n] => n.toNat?.map (fun n => (a, n))
    | _ => none)

def parseField (s : String) : Option FieldM :=
  match s.splitOn "|" with
  | [d, own, data, da, ax, cons] => do
    let isD ← (if d == "D" then some true else if d == "F" then some false else none)
    let cs ← if cons == "-" then some [] else (cons.splitOn ";").mapM parseCons
    some { isDomain := isD, own := ← parseNames own, data := ← parseData data,
           dataAxes := ← parseStrs da, axes := ← parseAxes ax, cons := cs }
  | _ => none

def parseRegs (s : String) : Option Regs := (s.splitOn "/").mapM parseField

def parseSlot (s : String) : Option Slot :=
  if s == "f" then some .fdata
  else if s.startsWith "c-" then some (.cdata (s.drop 2).toString)
  else if s.startsWith "b-" then some (.bdata (s.drop 2).toString)
  else none

def parseMemTarget (s : String) : Option MemTarget :=
  if s == "f" then some .field
  else if s == "all" then some .all
  else if s.startsWith "c-" then some (.cons (s.drop 2).toString)
  else none

def parseOp (s : String) : Option Op :=
  match s.splitOn ":" with
  | ["copy", r] => r.toNat?.map Op.copy
  | ["source", r] => r.toNat?.map Op.source
  | ["subE", r] => r.toNat?.map Op.subE
  | ["sub", r, sz] => do some (.sub (← r.toNat?) (← (sz.splitOn ".").mapM String.toNat?))
  | ["squeeze", r] => r.toNat?.map Op.squeeze
  | ["transpose", r] => r.toNat?.map Op.transpose
  | ["insdim", r, a] => r.toNat?.map (fun r => Op.insdim r a)
  | ["domain", r] => r.toNat?.map Op.domain
  | ["convert", r, k] => r.toNat?.map (fun r => Op.convert r k)
  | ["delcons", r, k, ip] => do some (.delcons (← r.toNat?) k (← parseBool ip))
  | ["setcons", r, src, k, nk, ax, ip] => do
    some (.setcons (← r.toNat?) (← src.toNat?) k nk (← parseStrs ax) (← parseBool ip))
  | ["setdata", r, dst, src, fr, raw, ip] => do
    some (.setdata (← r.toNat?) (← parseSlot dst) (← src.toNat?) (← parseSlot fr) (← parseBool raw) (← parseBool ip))
  | ["setbounds", r, k, src, k2, ip] => do
    some (.setbounds (← r.toNat?) k (← src.toNat?) k2 (← parseBool ip))
  | ["delbounds", r, k, ip] => do some (.delbounds (← r.toNat?) k (← parseBool ip))
  | ["tomem", r, t, ip] => do some (.tomem (← r.toNat?) (← parseMemTarget t) (← parseBool ip))
  | ["assign", r, sl, ip] => do some (.assign (← r.toNat?) (← parseSlot sl) (← parseBool ip))
  | ["setext", r, k, ip] => do some (.setext (← r.toNat?) k (← parseBool ip))
  | ["addmsr", r, k, ax, ip] => do some (.addmsr (← r.toNat?) k (← parseStrs ax) (← parseBool ip))
  | _ => none

def parseOps (s : String) : Option (List Op) :=
  if s == "-" then some [] else (s.splitOn ";").mapM parseOp

def parseFS (s : String) : Option (List (Name × Entry)) :=
  if s == "-" then some [] else
  (s.splitOn ",").mapM (fun t => match t.splitOn "=" with
    | [n, e] => do
      let n ← n.toNat?
      if e == "f" then some (n, Entry.file [100 + n])
      else if e.startsWith "l" then (e.drop 1).toString.toNat?.map (fun t => (n, Entry.link t))
      else none
    | _ => none)

def mkFS (l : List (Name × Entry)) : FS := fun n => (l.find? (·.1 == n)).map (·.2)

def parseItems (s : String) : Option (List (Nat × Bool)) :=
  if s == "-" then some [] else
  (s.splitOn ",").mapM (fun t =>
    if t.endsWith "d" then (t.dropEnd 1).toString.toNat?.map (fun r => (r, true))
    else t.toNat?.map (fun r => (r, false)))

def parseFault (s : String) : Option Fault :=
  match s.splitOn ":" with
  | ["none"] => some .none
  | ["pre"] => some .pre
  | ["emit", i] => i.toNat?.map Fault.emit
  | _ => none

/-! ### printing -/

def insertSorted (x : Nat) : List Nat → List Nat
  | [] => [x]
  | y :: ys => if x < y then x :: y :: ys else if x == y then y :: ys else y :: insertSorted x ys

def showNames (l : List Name) : String :=
  let s := l.foldl (fun acc x => insertSorted x acc) []
  if s.isEmpty then "-" else String.intercalate "." (s.map toString)

def showOpt (o : Option String) : String := o.getD "!"

def obsCons (v : Ver) (c : Cons) : String :=
  c.key ++ ":" ++ showNames c.needCode ++ ":" ++ showNames (c.orig v) ++ ":" ++
    showOpt (c.data.map (fun d => showNames (d.orig v))) ++ ":" ++
    showOpt (c.bounds.map (fun b => showNames (dataFiles b.data))) ++ ":" ++
    showOpt (c.bounds.map (fun b => showNames (b.orig v)))

def insertCons (c : Cons) : List Cons → List Cons
  | [] => [c]
  | y :: ys => if c.key < y.key then c :: y :: ys else y :: insertCons c ys

def obsField (v : Ver) (f : FieldM) : String :=
  let cs := f.cons.foldl (fun acc c => insertCons c acc) []
  (if f.isDomain then "D" else "F") ++ " n=" ++ showNames f.needCode ++ " o=" ++ showNames (f.orig v) ++
    " t=" ++ showNames f.need ++
    String.join (cs.map (fun c => "/" ++ obsCons v c))

/-- the register an in-place operation rewrites -/
def Op.inPlaceReg : Op → Option Nat
  | .delcons r _ true | .setcons r _ _ _ _ true | .setdata r _ _ _ _ true | .setbounds r _ _ _ true
  | .delbounds r _ true | .tomem r _ true | .setext r _ true | .addmsr r _ _ true | .assign r _ true => some r
  | _ => none

/-- run the history, reporting every step -/
def runObs (v : Ver) : Regs → List Op → List String → Regs × List String
  | rs, [], acc => (rs, acc.reverse)
  | rs, op :: ops, acc =>
    match step rs op with
    | none => runObs v rs ops ("rej" :: acc)
    | some rs' =>
      let changed : Option FieldM :=
        match Op.inPlaceReg op with
        | some r => rs'[r]?
        | none => rs'.getLast?
      runObs v rs' ops (("ok " ++ (match changed with
                                   | some f => obsField v f
                                   | none => "=")) :: acc)

def showOutcome : Outcome → String
  | .ok => "ok" | .osError => "raised:OSError" | .valueError => "raised:ValueError" | .failed => "raised:*"

/-- `same` / `touched` for a name; the file that was opened for appending is reported as `open`
(what a failed or successful append leaves in a file nobody needs is another property's subject) -/
def stateOf (fs0 fs1 : FS) (appendTarget : Option Name) (refused : Bool) (n : Name) : String :=
  if appendTarget == some n && !refused then "open"
  else if fs0 n == fs1 n then "same" else "touched"

def half (v : Ver) (regs : Regs) (ops : List Op) (fsl : List (Name × Entry)) (items : List (Nat × Bool))
    (target : Name) (mode : Mode) (ow : Bool) (ext : Option Name) (fault : Fault) (skip : Bool) : Option String := do
  let (rs, obs) := runObs v regs ops []
  let fields ← items.mapM (fun p => (rs[p.1]?).map (fun f => if p.2 then f.domain else f))
  let fs0 := mkFS fsl
  let rq : Req := { fields := fields, target := target, mode := mode, overwrite := ow, external := ext, fault := fault, omitData := skip }
  let (fs1, out) := writeProc v fs0 rq
  let names := (fsl.map (·.1) ++ [target] ++ (match ext with | some e => [e] | none => [])).foldl
    (fun acc x => insertSorted x acc) []
  let appT := if mode == Mode.a && fs0.isfile target then some (fs0.real target) else none
  let states := names.map (fun n => toString n ++ "=" ++ stateOf fs0 fs1 appT (out == Outcome.osError || out == Outcome.valueError) n)
  some (String.intercalate ";" obs ++ "|" ++ showOutcome out ++ "|" ++ String.intercalate "," states)

/-- why the unpatched guard lets through what the patched one refuses -/
def whyTag (regs : Regs) (ops : List Op) (fsl : List (Name × Entry)) (items : List (Nat × Bool))
    (target : Name) (mode : Mode) (ext : Option Name) : String :=
  let rs := run regs ops
  let fields := items.filterMap (fun p => (rs[p.1]?).map (fun f => if p.2 then f.domain else f))
  let fs0 := mkFS fsl
  let extHit := match ext with
    | some e => guardHits .new fs0 fields e
    | none => false
  let tNew := mode == Mode.w && guardHits .new fs0 fields target
  let tOld := mode == Mode.w && guardHits .old fs0 fields target
  let byName := fields.any (fun f => (f.orig .new).contains target)
  let aNew := mode == Mode.a && !fields.isEmpty && guardHits .new fs0 fields target
  if aNew then "append"
  else if tNew && !tOld then (if byName then "transplant" else "alias")
  else if extHit then "external"
  else "-"

def runHist (kv : KV) : String :=
  match (do
    let regs ← parseRegs (← kv.get? "init")
    let ops ← parseOps (← kv.get? "ops")
    let fsl ← parseFS (← kv.get? "fs")
    let items ← parseItems (← kv.get? "items")
    let target ← (← kv.get? "target").toNat?
    let mode ← (match (← kv.get? "mode") with | "w" => some Mode.w | "a" => some Mode.a | _ => none)
    let ow ← parseBool (← kv.get? "ow")
    let ext ← (match (← kv.get? "ext") with | "-" => some none | s => s.toNat?.map some)
    let fault ← parseFault (← kv.get? "fault")
    let skip ← parseBool (← kv.get? "omit")
    let a ← half .new regs ops fsl items target mode ow ext fault skip
    let b ← half .old regs ops fsl items target mode ow ext fault skip
    some (a ++ "#" ++ b ++ "|why=" ++ whyTag regs ops fsl items target mode ext)) with
  | some s => s
  | none => "bad-op"

end Cfdm.Driver.C10

namespace Cfdm.Driver.C10
open Cfdm.Driver

/-! ## C10.tree — the aggregation over the whole component tree

  C10.tree t=<tree> mem=<path|-> target=<n>

  tree   `L<role>:<names>`  |  `O<role>:<cls>:<names>[<tree>,…]`
  path   child positions `0.2.1`, `-` = no to_memory
  answer `need=<names> old=<names> new=<names> wt=<0|1> hid=<0|1> w=<old>/<new>` (refused | proceeds)
-/

namespace T
open Cfdm.FilesTree

def parseRole : String → Option Role
  | "top" => some .top | "cons" => some .cons | "data" => some .data | "bounds" => some .bounds
  | "ring" => some .ring | "nodeCount" => some .nodeCount | "partNodeCount" => some .partNodeCount
  | "arr" => some .arr | "count" => some .count | "index" => some .index | "list" => some .list
  | "tpi" => some .tiePointIndex | "ip" => some .interpParam | "dtp" => some .depTiePoints
  | "nc" => some .nodeCoords
  | _ => none

def parseCls : String → Option Cls
  | "field" => some .field | "domain" => some .domain | "pdb" => some .pdb | "pd" => some .pd
  | "props" => some .props | "dnone" => some (.data .none) | "dgath" => some (.data .gathered)
  | "drc" => some (.data .raggedC) | "dri" => some (.data .raggedI) | "dric" => some (.data .raggedIC)
  | "dsub" => some (.data .subsampled) | "dbfn" => some (.data .boundsFromNodes) | "dmesh" => some (.data .mesh)
  | _ => none

def takeUntil (p : Char → Bool) : List Char → List Char × List Char
  | [] => ([], [])
  | c :: cs => if p c then ([], c :: cs) else let r := takeUntil p cs; (c :: r.1, r.2)

def isDelim (c : Char) : Bool := c == ':' || c == '[' || c == ']' || c == ','

mutual
def parseTree : Nat → List Char → Option (Tree × List Char)
  | 0, _ => none
  | _ + 1, 'L' :: cs =>
    let (r, rest) := takeUntil isDelim cs
    match rest with
    | ':' :: rest =>
      let (ns, rest) := takeUntil isDelim rest
      do some (.leaf (← parseRole (String.ofList r)) (← parseNames (String.ofList ns)), rest)
    | _ => none
  | fuel + 1, 'O' :: cs =>
    let (r, rest) := takeUntil isDelim cs
    match rest with
    | ':' :: rest =>
      let (c, rest) := takeUntil isDelim rest
      match rest with
      | ':' :: rest =>
        let (ns, rest) := takeUntil isDelim rest
        match rest with
        | '[' :: ']' :: rest =>
          do some (.obj (← parseRole (String.ofList r)) (← parseCls (String.ofList c)) (← parseNames (String.ofList ns)) [], rest)
        | '[' :: rest =>
          do
            let (kids, rest) ← parseKids fuel rest
            some (.obj (← parseRole (String.ofList r)) (← parseCls (String.ofList c)) (← parseNames (String.ofList ns)) kids, rest)
        | _ => none
      | _ => none
    | _ => none
  | _ + 1, _ => none
def parseKids : Nat → List Char → Option (List Tree × List Char)
  | 0, _ => none
  | fuel + 1, cs =>
    match parseTree fuel cs with
    | none => none
    | some (t, ',' :: rest) =>
      match parseKids fuel rest with
      | none => none
      | some (ts, rest) => some (t :: ts, rest)
    | some (t, ']' :: rest) => some ([t], rest)
    | some _ => none
end

def parseTreeStr (s : String) : Option Tree :=
  match parseTree (s.length + 1) s.toList with
  | some (t, []) => some t
  | _ => none

def parsePath (s : String) : Option (Option (List Nat)) :=
  if s == "-" then some none
  else if s == "." then some (some [])
  else ((s.splitOn ".").mapM String.toNat?).map some

def runTree (kv : KV) : String :=
  match (do
    let t ← parseTreeStr (← kv.get? "t")
    let mem ← parsePath (← kv.get? "mem")
    let target ← (← kv.get? "target").toNat?
    let t' := match mem with
      | none => t
      | some p => t.step (.toMem p)
    let w := fun (v : Ver) => if (t'.orig v).contains target then "refused" else "proceeds"
    some ("need=" ++ showNames t'.need ++ " old=" ++ showNames (t'.orig .old) ++ " new=" ++ showNames (t'.orig .new) ++
          " wt=" ++ (if t'.wellTyped then "1" else "0") ++ " hid=" ++ (if t'.noHidden then "0" else "1") ++
          " w=" ++ w .old ++ "/" ++ w .new)) with
  | some s => s
  | none => "bad-op"

end T

/-! ## C10.path — which name the refusals are decided on

  C10.path ents=<e>=f<ino>|l<e>|d,… raws=<r>:<expand r>:<entOf r>,… fuel=<k> fields=<need>/<orig>/<ext>;…
           target=<r> mode=<w|a> ow=<0|1> ext=<r|-> fault=<none|pre|emit:i> omit=<0|1> show=<e.e.e>

  ext of a field: `<need>~<orig>` joined by `+`, none `_`.
  answer `<new>#<old>`; each half `<outcome>|<e>=<same|touched|open>,…|<events>`; events are the
  `remove` / `create` / `openA` calls with the directory entry the string denotes (`rm:3,cr:3`).
-/

namespace P
open Cfdm.FilesPath

def parseEnts (s : String) : Option (List (Nat × Entry)) :=
  if s == "-" then some [] else
  (s.splitOn ",").mapM (fun t => match t.splitOn "=" with
    | [n, e] => do
      let n ← n.toNat?
      if e == "d" then some (n, Entry.dir)
      else if e.startsWith "f" then (e.drop 1).toString.toNat?.map (fun i => (n, Entry.file i))
      else if e.startsWith "l" then (e.drop 1).toString.toNat?.map (fun t => (n, Entry.link t))
      else none
    | _ => none)

def parseRaws (s : String) : Option (List (Nat × Nat × Nat)) :=
  if s == "-" then some [] else
  (s.splitOn ",").mapM (fun t => match t.splitOn ":" with
    | [r, x, e] => do some (← r.toNat?, ← x.toNat?, ← e.toNat?)
    | _ => none)

def parsePart (s : String) : Option Part :=
  match s.splitOn "~" with
  | [a, b] => do some { need := ← parseNames a, orig := ← parseNames b }
  | _ => none

def parseFieldA (s : String) : Option FieldA :=
  match s.splitOn "/" with
  | [a, b, c] => do
    let ext ← if c == "_" then some [] else (c.splitOn "+").mapM parsePart
    some { need := ← parseNames a, orig := ← parseNames b, ext := ext }
  | _ => none

def parseFields (s : String) : Option (List FieldA) :=
  if s == "-" then some [] else (s.splitOn ";").mapM parseFieldA

def parseFault (s : String) : Option Fault :=
  match s.splitOn ":" with
  | ["none"] => some .none
  | ["pre"] => some .pre
  | ["emit", i] => i.toNat?.map Fault.emit
  | _ => none

def showOutcome : Outcome → String
  | .ok => "ok" | .osError => "raised:OSError" | .valueError => "raised:ValueError" | .failed => "raised:*"

def showEv (env : Env) : Ev → Option String
  | .remove s => some ("rm:" ++ toString (env.entOf s))
  | .create s => some ("cr:" ++ toString (env.entOf s))
  | .openA s => some ("ap:" ++ toString (env.entOf s))
  | _ => none

/-- what is under an entry: its kind, and for a regular file its inode and contents -/
def entState (os : OS) (e : Ent) : Option (Entry × Content) :=
  (os.ent e).map (fun x => (x, match x with | .file i => os.store i | _ => []))

def half (v : Ver) (env : Env) (os : OS) (rq : Req) (shown : List Nat) : String :=
  let r := writeP v env os rq
  let refused := r.out.isRefusal
  -- the inode opened for appending: what an append leaves there is not this property's subject
  let appI : Option Ino := if rq.mode == .a && !refused then inoOf env os (env.expand rq.target) else none
  let st := shown.map (fun e =>
    let isApp := match appI, os.inoAt e with
      | some i, some j => i == j
      | _, _ => false
    toString e ++ "=" ++ (if isApp then "open" else if entState os e == entState r.os e then "same" else "touched"))
  showOutcome r.out ++ "|" ++ String.intercalate "," st ++ "|" ++
    (let evs := r.log.filterMap (showEv env); if evs.isEmpty then "-" else String.intercalate "," evs)

def runPath (kv : KV) : String :=
  match (do
    let ents ← parseEnts (← kv.get? "ents")
    let raws ← parseRaws (← kv.get? "raws")
    let fuel ← (← kv.get? "fuel").toNat?
    let fields ← parseFields (← kv.get? "fields")
    let target ← (← kv.get? "target").toNat?
    let mode ← (match (← kv.get? "mode") with | "w" => some Mode.w | "a" => some Mode.a | _ => none)
    let ow ← parseBool (← kv.get? "ow")
    let ext ← (match (← kv.get? "ext") with | "-" => some none | s => s.toNat?.map some)
    let fault ← parseFault (← kv.get? "fault")
    let skip ← parseBool (← kv.get? "omit")
    let shown ← parseNames (← kv.get? "show")
    let inos := ents.filterMap (fun p => match p.2 with | .file i => some i | _ => none)
    let os : OS := { ent := fun e => (ents.find? (·.1 == e)).map (·.2),
                     store := fun i => [100 + i],
                     next := inos.foldl (fun a b => max a (b + 1)) 0 }
    let env : Env := { expand := fun r => match raws.find? (·.1 == r) with | some p => p.2.1 | none => r,
                       entOf := fun r => match raws.find? (·.1 == r) with | some p => p.2.2 | none => r,
                       fuel := fuel }
    let rq : Req := { fields := fields, target := target, mode := mode, overwrite := ow, external := ext, fault := fault,
                      omitData := skip }
    some (half .new env os rq shown ++ "#" ++ half .old env os rq shown)) with
  | some s => s
  | none => "bad-op"

end P

def run (sub : String) (kv : KV) : String :=
  match sub with
  | "hist" => runHist kv
  | "tree" => T.runTree kv
  | "path" => P.runPath kv
  | _ => "bad-op"

end Cfdm.Driver.C10
