import Cfdm.Driver.Parse
import Cfdm.Model.Heap
import Cfdm.Model.HeapSites
import Cfdm.Model.HeapViews
/-
Driver for C04 (heap model).

  C04.share how=<copy|nodata|noarray|pickle|getitem|shallow|view|domain> tree=<T>
      → shared=[a,…] wf=<0|1> cells=<n>
        the cells of x (pre-order numbers) that the model's `x.copy()` still reaches; wf = no cell of x
        sits both at a re-created and at a handed-over position.  pickle: a pickle round trip (`deepT`);
        getitem: `x[indices]` (copy, then the data of the object, of its bounds and of its interior ring are
        replaced by `Data.copy(array=False)` + a new array); shallow: `Constructs.shallow_copy()`;
        view: `Constructs._view()`; domain: `Field.domain` (a new Domain around a view of the constructs)

  C04.meth how=<copy|nodata|noarray> who=<copy|src> tree=<T> writes=[<w>;…]
      → other=<same|changed> disc=<ok|broken> expl=<ok|none:…>
        y = model copy of x; the observed primitive writes of one public call are replayed on the receiver
        (who=copy: y, who=src: x) at the same component paths; `other` = does the fingerprint of the other
        object change; `disc` = did every write go through a live path (never through a handed-over cell);
        `expl` = is every observed write an instance of an in-place mutation site that the translator extracted
        from the code (Cfdm/Generated/HeapSites.lean) — relative to the innermost cfdm object on the way to the
        written cell; writes inside foreign objects (scipy, netCDF4 …) are not judged

<T>  = i<hex> | b<hex> | X<hex> | ^<n> | @<path> | <K>{key:<T>,…}
<K>  = D | L | U | S | M | C | O<f><Class>      f ∈ c n k f s o   (C takes the family of the enclosing O)
<w>  = <path>|s~<key>~<T>  |  <path>|d~<key>  |  <path>|p~<hex>       <path> = /key/key…  (root: /)
keys are percent-encoded: only [A-Za-z0-9_.%-] occur.
-/
namespace Cfdm.Driver.C04
open Cfdm.Driver Cfdm.Heap

def hexVal (c : Char) : Option Nat :=
  if c.isDigit then some (c.toNat - '0'.toNat)
  else if 'a' ≤ c ∧ c ≤ 'f' then some (c.toNat - 'a'.toNat + 10)
  else none

def isKeyChar (c : Char) : Bool := c.isAlphanum || c == '_' || c == '.' || c == '%' || c == '-'

structure PS where
  rest : List Char
  next : Nat                      -- next pre-order number
  done : List (Nat × T)           -- completed cells
  base : Option T                 -- receiver tree for `@` references

def takeWhile (p : Char → Bool) : List Char → List Char × List Char
  | [] => ([], [])
  | c :: cs => if p c then let r := takeWhile p cs; (c :: r.1, r.2) else ([], c :: cs)

def hexNat (cs : List Char) : Option Nat :=
  cs.foldl (fun acc c => match acc, hexVal c with | some a, some v => some (a * 16 + v) | _, _ => none) (some 0)

def famOf : Char → Option Fam
  | 'c' => some .container | 'n' => some .nparray | 'k' => some .constructs
  | 'f' => some .filearray | 's' => some .subarray | 'o' => some .opaque | _ => none

def rawGet (t : T) (key : String) : Option T :=
  match t with
  | .node _ _ ks => ks.get? key
  | _ => none

def rawResolve : T → List String → Option T
  | t, [] => some t
  | t, k :: p => (rawGet t k).bind (fun c => rawResolve c p)

def splitPath (s : String) : List String := (s.splitOn "/").filter (· ≠ "")

partial def parseT (owner : Fam) (s : PS) : Option (T × PS) :=
  match s.rest with
  | [] => none
  | 'i' :: cs =>
    let (h, r) := takeWhile (fun c => (hexVal c).isSome) cs
    (hexNat h).map (fun v => (T.imm v, { s with rest := r }))
  | 'b' :: cs =>
    let (h, r) := takeWhile (fun c => (hexVal c).isSome) cs
    (hexNat h).map (fun v =>
      let t := T.leaf s.next false v
      (t, { s with rest := r, next := s.next + 1, done := (s.next, t) :: s.done }))
  | 'X' :: cs =>
    let (h, r) := takeWhile (fun c => (hexVal c).isSome) cs
    (hexNat h).map (fun v =>
      let t := T.leaf s.next true v
      (t, { s with rest := r, next := s.next + 1, done := (s.next, t) :: s.done }))
  | '^' :: cs =>
    let (d, r) := takeWhile Char.isDigit cs
    match (String.ofList d).toNat? with
    | none => none
    | some n =>
      match s.done.find? (·.1 == n) with
      | some (_, t) => some (t, { s with rest := r })
      | none => some (T.leaf n true 0, { s with rest := r })   -- a cycle: the ancestor itself
  | '@' :: cs =>
    let (p, r) := takeWhile (fun c => isKeyChar c || c == '/') cs
    match s.base with
    | none => none
    | some b => (rawResolve b (splitPath (String.ofList p))).map (fun t => (t, { s with rest := r }))
  | c :: cs =>
    -- a container cell
    let kindRest : Option (Kind × Fam × List Char) :=
      match c with
      | 'D' => some (.dict, owner, cs)
      | 'L' => some (.list, owner, cs)
      | 'U' => some (.tup, owner, cs)
      | 'S' => some (.set, owner, cs)
      | 'M' => some (.ma, owner, cs)
      | 'C' => some (.comps owner, owner, cs)
      | 'O' =>
        match cs with
        | f :: cs' =>
          match famOf f with
          | some fam =>
            let (nm, r) := takeWhile (fun c => c.isAlphanum || c == '_') cs'
            some (.obj fam (String.ofList nm), fam, r)
          | none => none
        | [] => none
      | _ => none
    match kindRest with
    | none => none
    | some (k, fam, r) =>
      match r with
      | '{' :: r' =>
        let a := s.next
        let s1 : PS := { s with rest := r', next := s.next + 1 }
        match parseKids fam s1 with
        | none => none
        | some (ks, s2) =>
          let t := T.node a k ks
          some (t, { s2 with done := (a, t) :: s2.done })
      | _ => none
where
  parseKids (fam : Fam) (s : PS) : Option (Kids × PS) :=
    match s.rest with
    | '}' :: r => some (.nil, { s with rest := r })
    | ',' :: r => parseKids fam { s with rest := r }
    | _ =>
      let (k, r) := takeWhile isKeyChar s.rest
      match r with
      | ':' :: r' =>
        match parseT fam { s with rest := r' } with
        | none => none
        | some (t, s1) =>
          match parseKids fam s1 with
          | none => none
          | some (ks, s2) => some (.cons (String.ofList k) t ks, s2)
      | _ => none

def parseTree (txt : String) (start : Nat := 0) (base : Option T := none) : Option (T × Nat) :=
  match parseT .opaque ⟨txt.toList, start, [], base⟩ with
  | some (t, s) => if s.rest.isEmpty then some (t, s.next) else none
  | none => none

def dropKeysOf (how : String) : Option (List String) :=
  if how == "copy" then some [] else if how == "nodata" then some ["data"]
  else if how == "noarray" then some ["array"] else none

def dedup (l : List Nat) : List Nat := l.foldl (fun acc a => if acc.contains a then acc else acc ++ [a]) []

def insertSorted (a : Nat) : List Nat → List Nat
  | [] => [a]
  | b :: r => if a ≤ b then a :: b :: r else b :: insertSorted a r

def sortNat (l : List Nat) : List Nat := l.foldl (fun acc a => insertSorted a acc) []

def isDataObj : T → Bool
  | .node _ (.obj _ cls) _ => cls == "Data"
  | _ => false

/-- `x[indices]`: for a Data object `copy(array=False)` (+ a new array); for a construct a copy whose data, bounds
data and interior-ring data are replaced by such subspaced Data objects; for a field a copy whose own data are -/
def getitemModel (x : T) (n : Nat) : T :=
  if isDataObj x then (copyT (cfdmTbl ["array"]) x n).1 else
  let c := copyT cfdmTbl x n
  let parents : List (List Step) :=
    [[.attr], [.attr, .comp "bounds", .attr], [.attr, .comp "interior_ring", .attr]]
  (parents.foldl (fun (acc : T × Nat) p =>
    match resolve x (p ++ [.comp "data"]), targetAddr acc.1 p with
    | some d, some a =>
      let d' := copyT (cfdmTbl ["array"]) d acc.2
      (applyT a (.setKey "data" d'.1) acc.1, d'.2)
    | _, _ => acc) c).1

def shareLine (x y : T) (tbl : Tbl) (n : Nat) : String :=
  let ya := y.addrs
  let shared := sortNat (dedup (x.addrs.filter (fun a => ya.contains a)))
  let kept := keptT tbl x
  let wf := (liveT tbl x).all (fun a => !kept.contains a)
  s!"shared={showNatList shared} wf={if wf then 1 else 0} cells={n}"

def runShare (kv : KV) : String :=
  match kv.get? "how", kv.get? "tree" with
  | some how, some txt =>
    match parseTree txt with
    | some (x, n) =>
      if how == "pickle" then shareLine x (deepT x n).1 cfdmTbl n
      else if how == "getitem" then shareLine x (getitemModel x n) cfdmTbl n
      else if how == "shallow" then shareLine x (copyT shallowCopyTbl x n).1 shallowCopyTbl n
      else if how == "view" then shareLine x (viewT x n).1 cfdmTbl n
      else if how == "domain" then
        match domainOfT x n with
        | some (y, _) => shareLine x y cfdmTbl n
        | none => "bad-op"
      else
        match dropKeysOf how with
        | some dk => shareLine x (copyT (cfdmTbl dk) x n).1 (cfdmTbl dk) n
        | none => "bad-op"
    | none => "bad-op"
  | _, _ => "bad-op"

/-- is the raw key path live in the sense of `AllLive` (all steps but the last re-created on copy,
the last not crossing a shared entry)? -/
def rawLive (tbl : Tbl) : T → List String → Bool
  | _, [] => true
  | .node _ k ks, [key] =>
    (ks.get? key).isSome && tbl.mode k key != .share
  | .node _ k ks, key :: p =>
    match ks.get? key with
    | some c => (tbl.mode k key).live && rawLive tbl c p
    | none => false
  | _, _ :: _ => false

structure RawWrite where
  path : List String
  upd : Upd

def topAddr? : T → Option Nat
  | .node a _ _ => some a
  | .leaf a _ _ => some a
  | .imm _ => none

def parseWrite (recv : T) (n : Nat) (s : String) : Option (RawWrite × Nat) :=
  match s.splitOn "|" with
  | [p, u] =>
    let path := splitPath p
    match u.splitOn "~" with
    | ["d", key] => some (⟨path, .delKey key⟩, n)
    | ["p", h] => (hexNat h.toList).map (fun v => (⟨path, .poke v⟩, n))
    | ["s", key, txt] =>
      (parseTree txt n (some recv)).map (fun (t, n') => (⟨path, .setKey key t⟩, n'))
    | _ => none
  | _ => none

def parseWrites (recv : T) (n : Nat) (s : String) : Option (List RawWrite × Nat) := do
  let inner ← stripBrackets s
  if inner.isEmpty then some ([], n) else
  (inner.splitOn ";").foldlM (fun (acc : List RawWrite × Nat) w => do
    let (rw, n') ← parseWrite recv acc.2 w
    some (acc.1 ++ [rw], n')) ([], n)

/-! ### is an observed write an instance of a site extracted from the code? -/
def famLetter : Fam → String
  | .container => "c" | .nparray => "n" | .constructs => "k" | .filearray => "f" | .subarray => "s" | .opaque => "o"

/-- (family of the innermost cfdm object on the way to — or at — the written cell, keys below it, was a foreign
object crossed on the way?) -/
def innermost : T → List String → Option Fam → List String → Bool → Option Fam × List String × Bool
  | .node _ (.obj f _) ks, path, fam, rel, opq =>
    let (fam', rel', opq') := if f == .opaque then (fam, rel, true) else (some f, [], false)
    match path with
    | [] => (fam', rel', opq')
    | k :: p =>
      match ks.get? k with
      | some c => innermost c p fam' (rel' ++ [k]) opq'
      | none => (fam', rel' ++ (k :: p), opq')
  | .node _ _ ks, k :: p, fam, rel, opq =>
    (match ks.get? k with
     | some c => innermost c p fam (rel ++ [k]) opq
     | none => (fam, rel ++ (k :: p), opq))
  | _, path, fam, rel, opq => (fam, rel ++ path, opq)

def keysMatch : List (Option String) → List String → Bool
  | [], [] => true
  | none :: r, _ :: p => keysMatch r p
  | some k :: r, k' :: p => k == k' && keysMatch r p
  | _, _ => false

def updMatches (s : Site) : Upd → Bool
  | .setKey k _ => !s.removes && (match s.key with | some l => l == k | none => true)
  | .delKey k => s.removes && (match s.key with | some l => l == k | none => true)
  | .poke _ => true

def siteExplains (fam : Fam) (rel : List String) (u : Upd) (s : Site) : Bool :=
  s.fam == fam && updMatches s u &&
  (match s.root, rel with
   | .obj, [] => true
   | .comps, ["_components"] => true
   | .comp c, "_components" :: c' :: rest => (match c with | some l => l == c' | none => true) && keysMatch s.keys rest
   | .attr a, a' :: rest => a != "_components" && a == a' && keysMatch s.keys rest
   | _, _ => false)

def updTag : Upd → String
  | .setKey k _ => "s:" ++ k | .delKey k => "d:" ++ k | .poke _ => "p"

/-- "" when the write is explained (or is inside a foreign object), else a description -/
def unexplained (recv : T) (path : List String) (u : Upd) : String :=
  let (fam, rel, opq) := innermost recv path none [] false
  if opq then "" else
  match fam with
  | none => ""          -- the receiver is not a cfdm object
  | some f =>
    if codeSites.any (fun s => match s with | some s => siteExplains f rel u s | none => false) then ""
    else s!"{famLetter f}:/{"/".intercalate rel}:{updTag u}"

def runMeth (kv : KV) : String :=
  match kv.get? "how", kv.get? "who", kv.get? "tree", kv.get? "writes" with
  | some how, some who, some txt, some ws =>
    match dropKeysOf how, parseTree txt with
    | some dk, some (x, n) =>
      let tbl := cfdmTbl dk
      let c := copyT tbl x n
      let y := c.1
      let (recv, other) := if who == "copy" then (y, x) else (x, y)
      if who != "copy" && who != "src" then "bad-op" else
      match parseWrites recv c.2 ws with
      | none => "bad-op"
      | some (rws, _) =>
        let disc := rws.all (fun w => rawLive tbl recv w.path)
        -- resolve every target in the pre-state of the receiver, then perform the writes in order
        let targets := rws.filterMap (fun w => ((rawResolve recv w.path).bind topAddr?).map (fun a => (a, w.upd)))
        if targets.length != rws.length then "bad-op" else
        let other' := applyAll targets other
        let same := (obsT other').beq (obsT other)
        let unex := (rws.map (fun w => unexplained recv w.path w.upd)).filter (· ≠ "")
        let expl := match unex with | [] => "ok" | e :: _ => "none:" ++ e
        s!"other={if same then "same" else "changed"} disc={if disc then "ok" else "broken"} expl={expl}"
    | _, _ => "bad-op"
  | _, _, _, _ => "bad-op"

def run (sub : String) (kv : KV) : String :=
  match sub with
  | "share" => runShare kv
  | "meth" => runMeth kv
  | _ => "bad-op"

end Cfdm.Driver.C04
