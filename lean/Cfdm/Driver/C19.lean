import Cfdm.Driver.Parse
import Cfdm.Model.Describe
import Cfdm.Driver.C19Emit
/-
Driver for C19.

  C19.desc <field>   → repr=… str=… dump=… oldrepr=… oldstr=… olddump=…   (ok | raised:KeyError | raised:TypeError)
  C19.cmds <field>   → cmds=[sorted blocks] cm=[…] ref=[…] deps=… old=… state=<rebuilt field>

<field> = dom=0|1 nc=<name|_> data=<shape|_> daxes=<axes|_> A=[k:size:ncdim,…]
          C=[<type><n>;shape;ncvar;bounds;axes,…] M=[n;axes;method,…] R=[n;ncvar;coords;ancils,…]
shape   = `_` (no data) | `s` (scalar) | 3x4        axes = `_` (not set) | `n` (empty) | 0+2
bounds  = `_` | B0~<ncvar|_> | B1~<ncvar|_>          names never contain blanks or any of ,;+~:=[]|/
-/
namespace Cfdm.Driver.C19
open Cfdm.Driver Cfdm.Describe

def optName (s : String) : Option String := if s == "_" then none else some s
def showOpt (o : Option String) : String := o.getD "_"

def parseShape (s : String) : Option (Option (List Nat)) :=
  if s == "_" then some none
  else if s == "s" then some (some [])
  else ((s.splitOn "x").mapM String.toNat?).map some

def showShape : Option (List Nat) → String
  | none => "_"
  | some [] => "s"
  | some l => String.intercalate "x" (l.map toString)

def parseAxes (s : String) : Option (Option (List Nat)) :=
  if s == "_" then some none
  else if s == "n" then some (some [])
  else ((s.splitOn "+").mapM String.toNat?).map some

def showAxes : Option (List Nat) → String
  | none => "_"
  | some [] => "n"
  | some l => String.intercalate "+" (l.map toString)

def parseStrs (s : String) : List String := if s == "n" then [] else s.splitOn "+"
def showStrs (l : List String) : String := if l.isEmpty then "n" else String.intercalate "+" l

def typeNames : List (String × CType) :=
  [("dim", .dim), ("aux", .aux), ("msr", .msr), ("dan", .dan), ("top", .top), ("con", .con), ("fan", .fan)]

def showType (t : CType) : String :=
  match typeNames.find? (fun p => p.2 = t) with
  | some p => p.1
  | none => "?"

def parseKey (s : String) : Option Key :=
  if s.length < 4 then none else
  match typeNames.find? (fun p => p.1 == (s.take 3).toString), (s.drop 3).toString.toNat? with
  | some p, some n => some ⟨p.2, n⟩
  | _, _ => none

def showKey (k : Key) : String := showType k.t ++ toString k.n

def listBody (s : String) : Option (List String) := do
  let inner ← stripBrackets s
  if inner.isEmpty then some [] else some (inner.splitOn ",")

def parseAxis (s : String) : Option (Nat × Axis) :=
  match s.splitOn ":" with
  | [k, size, nc] => do
    let k ← k.toNat?
    let size ← if size == "_" then some none else size.toNat?.map some
    some (k, ⟨size, optName nc⟩)
  | _ => none

def parseBounds (s : String) : Option (Option Bnd) :=
  if s == "_" then some none else
  match s.splitOn "~" with
  | ["B0", v] => some (some ⟨false, optName v⟩)
  | ["B1", v] => some (some ⟨true, optName v⟩)
  | _ => none

def showBounds : Option Bnd → String
  | none => "_"
  | some b => (if b.hasData then "B1~" else "B0~") ++ showOpt b.ncvar

def parseEntry (s : String) : Option Entry :=
  match s.splitOn ";" with
  | [k, shape, nc, b, ax] => do
    let k ← parseKey k
    let shape ← parseShape shape
    let b ← parseBounds b
    let ax ← parseAxes ax
    some ⟨k, ⟨shape, optName nc, b⟩, ax⟩
  | _ => none

def parseCM (s : String) : Option (Nat × CM) :=
  match s.splitOn ";" with
  | [k, ax, m] => do
    let k ← k.toNat?
    some (k, ⟨if ax == "_" then none else some (parseStrs ax), optName m⟩)
  | _ => none

def parseAncil (s : String) : Option (String × Option String) :=
  match s.splitOn "~" with
  | [t, v] => some (t, optName v)
  | _ => none

def showAncils (l : List (String × Option String)) : String :=
  if l.isEmpty then "n" else String.intercalate "+" (l.map (fun p => p.1 ++ "~" ++ showOpt p.2))

def parseRef (s : String) : Option (Nat × Ref) :=
  match s.splitOn ";" with
  | [k, nc, co, an] => do
    let k ← k.toNat?
    let an ← (parseStrs an).mapM parseAncil
    some (k, ⟨optName nc, parseStrs co, an⟩)
  | _ => none

def parseField (kv : KV) : Option MField := do
  let dom ← match (← kv.get? "dom") with
    | "0" => some false
    | "1" => some true
    | _ => none
  let nc := optName (← kv.get? "nc")
  let data ← parseShape (← kv.get? "data")
  let daxes ← parseAxes (← kv.get? "daxes")
  let axes ← (← listBody (← kv.get? "A")).mapM parseAxis
  let cons ← (← listBody (← kv.get? "C")).mapM parseEntry
  let cms ← (← listBody (← kv.get? "M")).mapM parseCM
  let refs ← (← listBody (← kv.get? "R")).mapM parseRef
  some ⟨dom, nc, data, daxes, axes, cons, cms, refs⟩

def canonOrder : List CType := [.dim, .aux, .msr, .dan, .top, .con, .fan]

def showList (l : List String) : String := "[" ++ String.intercalate "," l ++ "]"

def showEntry (e : Entry) : String :=
  String.intercalate ";" [showKey e.key, showShape e.con.shape, showOpt e.con.ncvar, showBounds e.con.bounds, showAxes e.axes]

def showField (f : MField) : String :=
  String.intercalate "|" [
    "dom=" ++ (if f.isDomain then "1" else "0"),
    "nc=" ++ showOpt f.ncvar,
    "data=" ++ showShape f.data,
    "daxes=" ++ showAxes f.dataAxes,
    "A=" ++ showList (f.axes.map (fun p => s!"{p.1}:{match p.2.size with | some n => toString n | none => "_"}:{showOpt p.2.ncdim}")),
    "C=" ++ showList ((canonOrder.flatMap (fun t => f.ofType t)).map showEntry),
    "M=" ++ showList (f.cms.map (fun p => s!"{p.1};{match p.2.axes with | none => "_" | some l => showStrs l};{showOpt p.2.method}")),
    "R=" ++ showList (f.refs.map (fun p => s!"{p.1};{showOpt p.2.ncvar};{showStrs p.2.coords};{showAncils p.2.ancils}"))]

def res (o : Option Unit) : String := if o.isSome then "ok" else "raised:KeyError"

def runDesc (kv : KV) : String :=
  match parseField kv with
  | none => "bad-op"
  | some f =>
    let oldrepr := if f.isDomain then (if (reprDomainOld f).isSome then "ok" else "raised:TypeError") else res (reprF f)
    s!"repr={res (reprF f)} str={res (strF axesNew f)} dump={res (dumpF axesNew f)} oldrepr={oldrepr} oldstr={res (strF axesOld f)} olddump={res (dumpF axesOld f)}"

def showCmd : Cmd → String
  | .newField d => if d then "F1" else "F0"
  | .fNcVar v => "fnc:" ++ v
  | .fSetData sh => "fdata:" ++ showShape (some sh)
  | .newAxis => "A"
  | .aSetSize n => "size:" ++ toString n
  | .aNcDim v => "ncdim:" ++ v
  | .newCon t => "C" ++ showType t
  | .cNcVar v => "nc:" ++ v
  | .cSetData sh => "data:" ++ showShape (some sh)
  | .newBounds => "B"
  | .bNcVar v => "bnc:" ++ v
  | .bSetData => "bdata"
  | .cSetBounds => "setb"
  | .newCM => "M"
  | .mSetMethod m => "meth:" ++ m
  | .mSetAxes l => "axes:" ++ showStrs l
  | .newRef => "R"
  | .rNcVar v => "nc:" ++ v
  | .rSetCoords l => "coords:" ++ showStrs l
  | .rSetAncils l => "anc:" ++ showAncils l
  | .setAxis k => "setA:" ++ toString k
  | .setCon k ax => "setC:" ++ showKey k ++ ":" ++ showAxes ax
  | .setCM => "setM"
  | .setRef => "setR"
  | .setDataAxes l => "daxes:" ++ showAxes (some l)

/-- a block ends with a command acting on the field / domain -/
def endsBlock : Cmd → Bool
  | .newField _ | .fNcVar _ | .fSetData _ | .setAxis _ | .setCon _ _ | .setCM | .setRef | .setDataAxes _ => true
  | _ => false

def blocks (cmds : List Cmd) : List (List Cmd) :=
  let (acc, cur) := cmds.foldl (fun (p : List (List Cmd) × List Cmd) c =>
    if endsBlock c then (p.1 ++ [p.2 ++ [c]], []) else (p.1, p.2 ++ [c])) ([], [])
  if cur.isEmpty then acc else acc ++ [cur]

def showBlock (b : List Cmd) : String := String.intercalate "/" (b.map showCmd)

def lastIs (p : Cmd → Bool) (b : List Cmd) : Bool :=
  match b.getLast? with
  | some c => p c
  | none => false

/-- every `setC`/`daxes` comes after the `setA` of each axis it names -/
def depsOk (cmds : List Cmd) : Bool :=
  (cmds.foldl (fun (p : List Nat × Bool) c =>
    match c with
    | .setAxis k => (k :: p.1, p.2)
    | .setCon _ (some l) => (p.1, p.2 && l.all (fun a => p.1.contains a))
    | .setDataAxes l => (p.1, p.2 && l.all (fun a => p.1.contains a))
    | _ => p) ([], true)).2

def runCmds (kv : KV) : String :=
  match parseField kv with
  | none => "bad-op"
  | some f =>
    let order := [CType.dim, .aux, .msr, .dan, .top, .con]
    let cmds := creationCommands order f
    let bs := blocks cmds
    let sorted := (bs.map showBlock).mergeSort (fun a b => !(b < a))
    let cm := (bs.filter (lastIs (fun c => c == .setCM))).map showBlock
    let rf := (bs.filter (lastIs (fun c => c == .setRef))).map showBlock
    let old := match creationCommandsOld order f with
      | some _ => "ok"
      | none => "raised:ValueError"
    let st := match exec cmds with
      | some g => showField g
      | none => "raised:ValueError"
    s!"cmds={showList sorted} cm={showList cm} ref={showList rf} deps={if depsOk cmds then "ok" else "bad"} old={old} state={st}"

def run (sub : String) (kv : KV) : String :=
  match sub with
  | "desc" => runDesc kv
  | "cmds" => runCmds kv
  | "emit" => C19Emit.runEmit kv
  | "dstr" => C19Emit.runDstr kv
  | "cstr" => C19Emit.runCstr kv
  | _ => "bad-op"

end Cfdm.Driver.C19
