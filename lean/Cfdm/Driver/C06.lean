import Cfdm.Driver.Parse
import Cfdm.Driver.C03
import Cfdm.Model.Ragged
import Cfdm.Model.RaggedND
import Cfdm.Model.RaggedState
import Cfdm.Model.RaggedNc
/-
Line-protocol driver for C06.

  C06.rc  count=[..] shape=[nrows,ncols] trail=[..] c=[..] ix=[..]?
  C06.ri  index=[..] shape=[nrows,ncols] trail=[..] c=[..] ix=[..]?
  C06.ric count=[..] index=[..] shape=[ninst,maxProf,nelem] trail=[..] c=[..] ix=[..]?
  C06.ga  list=[..] lead=[..] dims=[..] trail=[..] c=[..] ix=[..]?
  C06.cmp method=contiguous|indexed|indexed_contiguous shape=[..] a=[..] aux=[..]|[..]? p2=[..]?
  C06.rd  kind=rc|ri|ric|ga …  (the shape is derived as the reader derives it; ri/ric need ninst=)
  C06.st  kind=rc|ri|ric|ga … prog=<op>|<op>|…   (history of Data operations, see `runState`)
  C06.enc kind=… (writer encoding + reader, see `runEnc`)

`c` is the compressed array in row-major order (`--` = masked), of shape
`[N] ++ trail` (ragged) or `lead ++ [N] ++ trail` (gathered).  Output:
`shape=[..] data=[..]` of the uncompressed array (after the optional subspace `ix`,
C03 syntax), `--` = masked; `rejected` when the uncompressed shape is too small for
the count/index/list variable (the implementation raises there).
-/
namespace Cfdm.Driver.C06
open Cfdm.Driver Cfdm.Ragged Cfdm.Arr

def parseMInt (s : String) : Option (M Int) :=
  if s == "--" then some none else (parseInt? s).map some

def parseMIntList (s : String) : Option (List (M Int)) := parseListWith parseMInt ',' s

def prodN (l : List Nat) : Nat := l.foldl (· * ·) 1

/-- Cut a list into consecutive pieces of length `k` (`k > 0`). -/
def chunks {β} (k : Nat) (l : List β) : List (List β) :=
  if k = 0 then [] else
  (List.range (l.length / k)).map (fun i => (l.drop (i * k)).take k)

/-- Samples as slabs over the trailing dimensions. -/
def toSlabs (t : Nat) (c : List (M Int)) : List (M (List (M Int))) :=
  (chunks t c).map some

def flattenSlabs (t : Nat) (l : List (M (List (M Int)))) : List (M Int) :=
  l.flatMap (fun s => match s with | some slab => slab | none => List.replicate t none)

/-- A flat row-major list as an array. -/
def arrOfFlat (shape : List Nat) (flat : List (M Int)) : Arr (M Int) :=
  let arr : Array (M Int) := flat.toArray
  { shape := shape, get := fun idx => arr.getD (Arr.ravel shape idx) none }

def showArr (shape : List Nat) (flat : List (M Int)) : String :=
  s!"shape={showNatList shape} data={showOptIntList flat}"

/-- Positions selected by a C03 index expression on an array of the given shape. -/
def parsePositions (shape : List Nat) (ixs : String) : Except String (List (List Nat)) :=
  match C03.parseRaws ixs with
  | none => .error "bad-op"
  | some raw =>
    match Cfdm.Indexing.parseIndices shape raw with
    | .error e => .error ("raised:" ++ e)
    | .ok sels =>
      if !C03.selsWf shape sels then .error "rejected" else .ok (C03.positionsNat shape sels)

/-- Apply an optional C03 index expression to the flat uncompressed array. -/
def finish (shape : List Nat) (flat : List (M Int)) (kv : KV) : String :=
  match kv.get? "ix" with
  | none => showArr shape flat
  | some ixs =>
    match parsePositions shape ixs with
    | .error e => e
    | .ok ps =>
      let B := seqTake (arrOfFlat shape flat) ps (List.range shape.length)
      showArr B.shape (toList B)

/-- The uncompressed array (shape, row-major values) of a ragged source.
`reader = true`: the shape is derived from the count / index variables as `cfdm.read` does
(`ninst` = size of the instance dimension). -/
def decodeRagged (kind : String) (reader : Bool) (kv : KV) : Except String (List Nat × List (M Int)) :=
  match (do
    let shape ← if reader then some [] else parseNatList (← kv.get? "shape")
    let ninst ← if reader && kind != "rc" then (← kv.get? "ninst").toNat? else some 0
    let trail ← parseNatList (← kv.get? "trail")
    let c ← parseMIntList (← kv.get? "c")
    let count ← if kind == "ri" then some [] else parseNatList (← kv.get? "count")
    let index ← if kind == "rc" then some [] else parseNatList (← kv.get? "index")
    some (shape, ninst, trail, c, count, index)) with
  | none => .error "bad-op"
  | some (shape, ninst, trail, c, count, index) =>
    let t := prodN trail
    if t = 0 || c.length % t != 0 then .error "bad-op" else
    let samples := toSlabs t c
    if reader then
      match kind with
      | "rc" => .ok ([count.length, maxL count] ++ trail, flattenSlabs t (readContiguous count samples).flatten)
      | "ri" => .ok ([ninst, maxOcc index] ++ trail, flattenSlabs t (readIndexed ninst index samples).flatten)
      | "ric" =>
        if index.length != count.length then .error "rejected" else
        .ok ([ninst, maxOcc index, maxL count] ++ trail,
             flattenSlabs t (readIndexedContiguous ninst count index samples).flatten)
      | _ => .error "bad-op"
    else
    match kind, shape with
    | "rc", [nrows, ncols] =>
      if !count.all (· ≤ ncols) then .error "rejected" else
      .ok (shape ++ trail, flattenSlabs t (decodeContiguous count nrows ncols samples).flatten)
    | "ri", [nrows, ncols] =>
      if !(List.range nrows).all (fun i => index.count i ≤ ncols) then .error "rejected" else
      .ok (shape ++ trail, flattenSlabs t (decodeIndexed index nrows ncols samples).flatten)
    | "ric", [ninst, maxProf, nelem] =>
      if !count.all (· ≤ nelem) || !(List.range ninst).all (fun i => index.count i ≤ maxProf)
          || index.length > count.length then .error "rejected" else
      .ok (shape ++ trail,
           flattenSlabs t (decodeIndexedContiguous count index ninst maxProf nelem samples).flatten)
    | _, _ => .error "bad-op"

/-- The uncompressed array of a gathered source: the N-d model (`decodeGatheredND`) on the
compressed array of shape `lead ++ [n] ++ trail`. -/
def decodeGa (kv : KV) : Except String (List Nat × List (M Int)) :=
  match (do
    let l ← parseNatList (← kv.get? "list")
    let lead ← parseNatList (← kv.get? "lead")
    let dims ← parseNatList (← kv.get? "dims")
    let trail ← parseNatList (← kv.get? "trail")
    let c ← parseMIntList (← kv.get? "c")
    some (l, lead, dims, trail, c)) with
  | none => .error "bad-op"
  | some (l, lead, dims, trail, c) =>
    let n := l.length
    let cshape := lead ++ [n] ++ trail
    if dims.isEmpty || c.length != prodN cshape then .error "bad-op" else
    if !l.all (· < Ragged.prod dims) then .error "rejected" else
    let data := (arrOfFlat cshape c).get
    let shape := lead ++ dims ++ trail
    let u := decodeGatheredND lead.length dims l data
    .ok (shape, (allIdx shape).map u)

def decodeSrc (kind : String) (reader : Bool) (kv : KV) : Except String (List Nat × List (M Int)) :=
  if kind == "ga" then decodeGa kv else decodeRagged kind reader kv

def runDecode (kind : String) (kv : KV) : String :=
  match decodeSrc kind false kv with
  | .error e => e
  | .ok (shape, flat) => finish shape flat kv

def runRead (kv : KV) : String :=
  match kv.get? "kind" with
  | none => "bad-op"
  | some kind =>
    if !["rc", "ri", "ric", "ga"].contains kind then "bad-op" else
    match decodeSrc kind true kv with
    | .error e => e
    | .ok (shape, flat) => showArr shape flat

/-! ### Field.compress -/

def parseArrays (s : String) : Option (List (List (M Int))) :=
  if s.isEmpty then some [] else (s.splitOn "|").mapM parseMIntList

def runCompress (kv : KV) : String :=
  match (do
    let shape ← parseNatList (← kv.get? "shape")
    let a ← parseMIntList (← kv.get? "a")
    let m ← kv.get? "method"
    let aux ← match kv.get? "aux" with | none => some [] | some s => parseArrays s
    let p2 ← match kv.get? "p2" with | none => some none | some s => (parseMIntList s).map some
    some (shape, a, m, aux, p2)) with
  | none => "bad-op"
  | some (shape, a, m, aux, p2) =>
    if a.length != prodN shape || aux.any (fun x => x.length != prodN shape) then "bad-op" else
    let join (parts : List String) := String.intercalate " ; " parts
    match m, shape with
    | "contiguous", [nrows, ncols] =>
      if ncols = 0 then "bad-op" else
      let arrays := (a :: aux).map (chunks ncols)
      let cnt := jointCount arrays
      join (arrays.map (fun rows =>
        let z := compressContiguousWith cnt rows
        showArr shape (decodeContiguous z.count nrows ncols z.c).flatten))
    | "indexed", [nrows, ncols] =>
      if ncols = 0 then "bad-op" else
      let arrays := (a :: aux).map (chunks ncols)
      let cnt := jointCount arrays
      join (arrays.map (fun rows =>
        let z := compressIndexedWith cnt rows
        showArr shape (decodeIndexed z.index nrows ncols z.c).flatten))
    | "indexed_contiguous", [ninst, maxProf, nelem] =>
      if nelem = 0 || maxProf = 0 then "bad-op" else
      let arrays := (a :: aux).map (fun x => chunks maxProf (chunks nelem x))
      let cnts := jointCountIC arrays
      let main := arrays.map (fun insts =>
        let z := compressIndexedContiguousWith cnts insts
        showArr shape (decodeIndexedContiguous z.count z.index ninst maxProf nelem z.c).flatten)
      match p2 with
      | none => join main
      | some p =>
        if p.length != ninst * maxProf then "bad-op" else
        let z := compressProfileMeta cnts (chunks maxProf p)
        join (main ++ [showArr [ninst, maxProf] (decodeIndexed z.index ninst maxProf z.c).flatten])
    | _, _ => "bad-op"

/-! ### histories of Data operations -/
open Cfdm.RaggedState

abbrev Obj := Repr (Arr (M Int)) (Arr (M Int))

def np : NpOps (Arr (M Int)) (List (List Nat)) (M Int) := arrOps

/-- Materialise (keeps the closures shallow). -/
def norm (A : Arr (M Int)) : Arr (M Int) := arrOfFlat A.shape (toList A)

def normObj : Obj → Obj
  | .comp c => .comp c
  | .plain a => .plain (norm a)

def parseAxes (s : String) : Option (Option (List Nat)) :=
  if s == "_" then some none
  else if s.isEmpty then some (some [])
  else ((s.splitOn ",").mapM String.toNat?).map some

def parseFlag (s : String) : Option Bool :=
  if s == "1" then some true else if s == "0" then some false else none

def flags (heap : List Obj) : String :=
  String.join (heap.map (fun o => if isComp o then "c" else "p"))

def isPerm (axes : List Nat) (n : Nat) : Bool :=
  axes.length == n && (List.range n).all (fun k => axes.contains k)

/-- One operation of a history: parse it against the current heap, apply `RaggedState.step`,
return the new heap and what the operation showed.
  A/i  G/i/<ix>  C/i  S/i/<ix>/<v>  T/i/<axes|_>/<inplace>  Q/i/<axes|_>/<inplace>
  D/i/<pos>/<inplace>  M/i/<inplace>  U/i/<inplace>  E/i/j  W/i -/
def stateStep (heap : List Obj) (tok : String) : Option (List Obj × String) :=
  let dec : Arr (M Int) → Arr (M Int) := id
  let shapeOf (i : Nat) : Option (List Nat) := (heap[i]?).map (fun o => (view dec o).shape)
  let apply (op : Op (List (List Nat)) (M Int)) : Option (List Obj × String) :=
    let (h, o) := step np dec heap op
    let h := h.map normObj
    match o with
    | .bad => none
    | .none => some (h, "ok")
    | .arr a => some (h, showArr a.shape (toList a))
    | .bool b => some (h, if b then "True" else "False")
    | .written b => some (h, if b then "written:compressed" else "written:plain")
  match tok.splitOn "/" with
  | ["A", i] => do apply (.array (← i.toNat?))
  | ["C", i] => do apply (.copy (← i.toNat?))
  | ["W", i] => do apply (.write (← i.toNat?))
  | ["E", i, j] => do apply (.equals (← i.toNat?) (← j.toNat?))
  | ["M", i, b] => do apply (.toMemory (← i.toNat?) (← parseFlag b))
  | ["U", i, b] => do apply (.uncompress (← i.toNat?) (← parseFlag b))
  | ["G", i, ix] => do
    let i ← i.toNat?
    match parsePositions (← shapeOf i) ix with
    | .error e => if e == "bad-op" then none else some (heap, e)
    | .ok ps => apply (.getitem i ps)
  | ["S", i, ix, v] => do
    let i ← i.toNat?
    let v ← parseMInt v
    match parsePositions (← shapeOf i) ix with
    | .error e => if e == "bad-op" then none else some (heap, e)
    | .ok ps => apply (.setitem i ps v)
  | ["T", i, axes, b] => do
    let i ← i.toNat?
    let axes ← parseAxes axes
    let sh ← shapeOf i
    match axes with
    | some ax => if !isPerm ax sh.length then some (heap, "raised:ValueError") else apply (.transpose i axes (← parseFlag b))
    | none => apply (.transpose i axes (← parseFlag b))
  | ["Q", i, axes, b] => do
    let i ← i.toNat?
    let axes ← parseAxes axes
    let sh ← shapeOf i
    match axes with
    | some ax =>
      if !ax.all (fun k => k < sh.length && sh.getD k 0 = 1) then some (heap, "raised:ValueError")
      else apply (.squeeze i (some ax.eraseDups) (← parseFlag b))
    | none => apply (.squeeze i none (← parseFlag b))
  | ["D", i, pos, b] => do
    let i ← i.toNat?
    let pos ← pos.toNat?
    let sh ← shapeOf i
    if pos > sh.length then some (heap, "raised:ValueError") else apply (.insertDim i pos (← parseFlag b))
  | _ => none

def runState (kv : KV) : String :=
  match (do
    let kind ← kv.get? "kind"
    let prog ← kv.get? "prog"
    some (kind, prog)) with
  | none => "bad-op"
  | some (kind, prog) =>
    if !["rc", "ri", "ric", "ga"].contains kind then "bad-op" else
    match decodeSrc kind false kv with
    | .error e => e
    | .ok (shape, flat) =>
      let init : List Obj := [.comp (arrOfFlat shape flat)]
      let toks := if prog.isEmpty then [] else prog.splitOn "|"
      let rec go (heap : List Obj) (toks : List String) (acc : List String) : Option (List Obj × List String) :=
        match toks with
        | [] => some (heap, acc.reverse)
        | t :: ts =>
          match stateStep heap t with
          | none => none
          | some (h, o) => go h ts ((o ++ " " ++ flags h) :: acc)
      match go init toks [] with
      | none => "bad-op"
      | some (heap, obs) =>
        let final := heap.map (fun o =>
          let a := view (id : Arr (M Int) → Arr (M Int)) o
          (if isComp o then "c:" else "p:") ++ showArr a.shape (toList a))
        "obs=" ++ String.intercalate " | " obs ++ " final=" ++ String.intercalate " | " final

/-! ### the netCDF encoding -/
open Cfdm.RaggedNc

def parseNamed (s : String) : Option (List (String × Nat)) :=
  if s.isEmpty then some [] else
  (s.splitOn ",").mapM (fun t => match t.splitOn ":" with
    | [n, k] => k.toNat?.map (fun k => (n, k))
    | _ => none)

def parseSpan (s : String) : Option Span :=
  match s with
  | "data" => some .data
  | "profile" => some .profile
  | "instance" => some .instance
  | _ => none

/-- `name:span:compressed:[values]` separated by `;`. -/
def parseConstructs (s : String) : Option (List (Construct Int)) :=
  if s.isEmpty then some [] else
  (s.splitOn ";").mapM (fun t => match t.splitOn ":" with
    | [n, sp, cp, vals] => do
      some { name := n, span := ← parseSpan sp, compressed := ← parseFlag cp, samples := ← parseMIntList vals }
    | _ => none)

def showAttr (k : String) (v : Option String) : String :=
  match v with | none => "" | some x => k ++ "=" ++ x ++ ","

def insertSorted (x : String) : List String → List String
  | [] => [x]
  | y :: ys => if x < y then x :: y :: ys else y :: insertSorted x ys

def sortStrings (l : List String) : List String := l.foldr insertSorted []

/-- A dataset in canonical text: dimensions and variables sorted by name; the values of an N-d
variable are listed in row-major order over the sizes of its dimensions. -/
def showDs (ds : NcDs Int) : String :=
  let dims := sortStrings (ds.dims.map (fun d => d.1 ++ ":" ++ toString d.2))
  let vars := sortStrings (ds.vars.map (fun v =>
    let vals := match v.payload with
      | .ints l => showNatList l
      | .samples l => showOptIntList l
      | .nd get => showOptIntList ((allIdx (v.dims.map (dimSize ds))).map get)
    v.name ++ "(" ++ String.intercalate "," v.dims ++ "){"
      ++ showAttr "sample_dimension" v.sampleDimension ++ showAttr "instance_dimension" v.instanceDimension
      ++ showAttr "compress" (v.compress.map (String.intercalate " ")) ++ "}=" ++ vals))
  "featureType=" ++ (if ds.featureType then "1" else "0") ++ " dims=" ++ String.intercalate "," dims
    ++ " vars=" ++ String.intercalate ";" vars

def showRead (ds : NcDs Int) (names : List String) : String :=
  String.intercalate ";" (names.map (fun n =>
    match readVar ds n with
    | none => n ++ ":none"
    | some a => n ++ ":" ++ showArr a.shape ((allIdx a.shape).map a.get)))

def runEnc (kv : KV) : String :=
  match kv.get? "kind" with
  | none => "bad-op"
  | some "ga" =>
    match (do
      let lead ← parseNamed (← kv.get? "lead")
      let dims ← parseNamed (← kv.get? "dims")
      let trail ← parseNamed (← kv.get? "trail")
      let l ← parseNatList (← kv.get? "list")
      let lv ← kv.get? "listvar"
      let cons ← ((← kv.get? "cons").splitOn ";").mapM (fun (t : String) => match t.splitOn ":" with
        | [n, vals] => (parseMIntList vals).map (fun v => ((n, v) : String × List (M Int)))
        | _ => none)
      some (lead, dims, trail, l, lv, cons)) with
    | none => "bad-op"
    | some (lead, dims, trail, l, lv, cons) =>
      let cshape := lead.map Prod.snd ++ [l.length] ++ trail.map Prod.snd
      if cons.any (fun c => c.2.length != prodN cshape) || dims.isEmpty then "bad-op" else
      if !l.all (· < Ragged.prod (dims.map Prod.snd)) then "rejected" else
      let g : GatheredField Int :=
        { lead := lead, dims := dims, trail := trail, listVar := lv, list := l,
          constructs := cons.map (fun c => (c.1, (arrOfFlat cshape c.2).get)) }
      let ds := encodeGathered g
      "file=" ++ showDs ds ++ " read=" ++ showRead ds (cons.map Prod.fst)
  | some k =>
    match (do
      let kind ← match k with
        | "rc" => some Kind.contiguous | "ri" => some Kind.indexed | "ric" => some Kind.indexedContiguous
        | _ => none
      let ft ← parseFlag (← kv.get? "ft")
      let ninst ← (← kv.get? "ninst").toNat?
      let count ← parseNatList (← kv.get? "count")
      let index ← parseNatList (← kv.get? "index")
      let cons ← parseConstructs (← kv.get? "cons")
      some ({ kind := kind, featureType := ft, instDim := ← kv.get? "inst", ninst := ninst,
              sampleDim := ← kv.get? "sample", profileDim := ← kv.get? "profile",
              countVar := ← kv.get? "countvar", indexVar := ← kv.get? "indexvar",
              count := count, index := index, constructs := cons } : RaggedField Int)) with
    | none => "bad-op"
    | some f =>
      match encodeRagged f with
      | none => "write-fails"
      | some ds => "file=" ++ showDs ds ++ " read=" ++ showRead ds (f.constructs.map (·.name))

def run (sub : String) (kv : KV) : String :=
  match sub with
  | "rc" => runDecode "rc" kv
  | "ri" => runDecode "ri" kv
  | "ric" => runDecode "ric" kv
  | "ga" => runDecode "ga" kv
  | "cmp" => runCompress kv
  | "rd" => runRead kv
  | "st" => runState kv
  | "enc" => runEnc kv
  | _ => "bad-op"

end Cfdm.Driver.C06
