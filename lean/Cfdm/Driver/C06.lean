import Cfdm.Driver.Parse
import Cfdm.Driver.C03
import Cfdm.Model.Ragged
/-
Line-protocol driver for C06.

  C06.rc  count=[..] shape=[nrows,ncols] trail=[..] c=[..] ix=[..]?
  C06.ri  index=[..] shape=[nrows,ncols] trail=[..] c=[..] ix=[..]?
  C06.ric count=[..] index=[..] shape=[ninst,maxProf,nelem] trail=[..] c=[..] ix=[..]?
  C06.ga  list=[..] lead=[..] dims=[..] trail=[..] c=[..] ix=[..]?
  C06.cmp method=contiguous|indexed|indexed_contiguous shape=[..] a=[..]

`c` is the compressed array in row-major order (`--` = masked), of shape
`[N] ++ trail` (ragged) or `lead ++ [N] ++ trail` (gathered).  Output:
`shape=[..] data=[..]` of the uncompressed array (after the optional subspace `ix`,
C03 syntax), `--` = masked; `rejected` when the uncompressed shape is too small for
the count/index/list variable (the implementation raises there).
-/
namespace Cfdm.Driver.C06
open Cfdm.Driver Cfdm.Ragged Cfdm.Arr

def parseMInt (s : String) : Option (M Int) :=
  if s == "--" then some none else (parseInt? s).map some

def parseMIntList (s : String) : Option (List (M Int)) := parseListWith parseMInt ',' s

def prodN (l : List Nat) : Nat := l.foldl (· * ·) 1

/-- Cut a list into consecutive pieces of length `k` (`k > 0`). -/
def chunks {β} (k : Nat) (l : List β) : List (List β) :=
  if k = 0 then [] else
  (List.range (l.length / k)).map (fun i => (l.drop (i * k)).take k)

/-- Samples as slabs over the trailing dimensions. -/
def toSlabs (t : Nat) (c : List (M Int)) : List (M (List (M Int))) :=
  (chunks t c).map some

def flattenSlabs (t : Nat) (l : List (M (List (M Int)))) : List (M Int) :=
  l.flatMap (fun s => match s with | some slab => slab | none => List.replicate t none)

/-- Apply an optional C03 index expression to the flat uncompressed array. -/
def finish (shape : List Nat) (flat : List (M Int)) (kv : KV) : String :=
  match kv.get? "ix" with
  | none => s!"shape={showNatList shape} data={showOptIntList flat}"
  | some ixs =>
    match C03.parseRaws ixs with
    | none => "bad-op"
    | some raw =>
      match Cfdm.Indexing.parseIndices shape raw with
      | .error e => "raised:" ++ e
      | .ok sels =>
        if !C03.selsWf shape sels then "rejected" else
        let ps := C03.positionsNat shape sels
        let arr : Array (M Int) := flat.toArray
        let A : Arr (M Int) := { shape := shape, get := fun idx => arr.getD (Arr.ravel shape idx) none }
        let B := seqTake A ps (List.range shape.length)
        s!"shape={showNatList B.shape} data={showOptIntList (toList B)}"

def runRagged (kind : String) (kv : KV) : String :=
  match (do
    let shape ← parseNatList (← kv.get? "shape")
    let trail ← parseNatList (← kv.get? "trail")
    let c ← parseMIntList (← kv.get? "c")
    let count ← if kind == "ri" then some [] else parseNatList (← kv.get? "count")
    let index ← if kind == "rc" then some [] else parseNatList (← kv.get? "index")
    some (shape, trail, c, count, index)) with
  | none => "bad-op"
  | some (shape, trail, c, count, index) =>
    let t := prodN trail
    if t = 0 || c.length % t != 0 then "bad-op" else
    let samples := toSlabs t c
    match kind, shape with
    | "rc", [nrows, ncols] =>
      if !count.all (· ≤ ncols) then "rejected" else
      let rows := decodeContiguous count nrows ncols samples
      finish (shape ++ trail) (flattenSlabs t rows.flatten) kv
    | "ri", [nrows, ncols] =>
      if !(List.range nrows).all (fun i => index.count i ≤ ncols) then "rejected" else
      let rows := decodeIndexed index nrows ncols samples
      finish (shape ++ trail) (flattenSlabs t rows.flatten) kv
    | "ric", [ninst, maxProf, nelem] =>
      if !count.all (· ≤ nelem) || !(List.range ninst).all (fun i => index.count i ≤ maxProf)
          || index.length > count.length then "rejected" else
      let rows := decodeIndexedContiguous count index ninst maxProf nelem samples
      finish (shape ++ trail) (flattenSlabs t rows.flatten) kv
    | _, _ => "bad-op"

def runGathered (kv : KV) : String :=
  match (do
    let l ← parseNatList (← kv.get? "list")
    let lead ← parseNatList (← kv.get? "lead")
    let dims ← parseNatList (← kv.get? "dims")
    let trail ← parseNatList (← kv.get? "trail")
    let c ← parseMIntList (← kv.get? "c")
    some (l, lead, dims, trail, c)) with
  | none => "bad-op"
  | some (l, lead, dims, trail, c) =>
    let t := prodN trail
    let nl := prodN lead
    let n := l.length
    if t = 0 || dims.isEmpty || c.length != nl * n * t then "bad-op" else
    if !l.all (· < Ragged.prod dims) then "rejected" else
    let blocks := if n * t = 0 then List.replicate nl [] else chunks (n * t) c
    let flat := blocks.flatMap (fun blk =>
      let u := decodeGathered dims l (toSlabs t blk)
      flattenSlabs t ((allIdx dims).map u))
    finish (lead ++ dims ++ trail) flat kv

def runCompress (kv : KV) : String :=
  match (do
    let shape ← parseNatList (← kv.get? "shape")
    let a ← parseMIntList (← kv.get? "a")
    let m ← kv.get? "method"
    some (shape, a, m)) with
  | none => "bad-op"
  | some (shape, a, m) =>
    if a.length != prodN shape then "bad-op" else
    match m, shape with
    | "contiguous", [nrows, ncols] =>
      if ncols = 0 then "bad-op" else
      let rows := chunks ncols a
      let z := compressContiguous rows
      finish shape (decodeContiguous z.count nrows ncols z.c).flatten kv
    | "indexed", [nrows, ncols] =>
      if ncols = 0 then "bad-op" else
      let rows := chunks ncols a
      let z := compressIndexed rows
      finish shape (decodeIndexed z.index nrows ncols z.c).flatten kv
    | "indexed_contiguous", [ninst, maxProf, nelem] =>
      if nelem = 0 || maxProf = 0 then "bad-op" else
      let insts := chunks maxProf (chunks nelem a)
      let z := compressIndexedContiguous insts
      finish shape (decodeIndexedContiguous z.count z.index ninst maxProf nelem z.c).flatten kv
    | _, _ => "bad-op"

def run (sub : String) (kv : KV) : String :=
  match sub with
  | "rc" => runRagged "rc" kv
  | "ri" => runRagged "ri" kv
  | "ric" => runRagged "ric" kv
  | "ga" => runGathered kv
  | "cmp" => runCompress kv
  | _ => "bad-op"

end Cfdm.Driver.C06
