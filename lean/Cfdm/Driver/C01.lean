import Cfdm.Driver.Parse
import Cfdm.Model.Codec
import Cfdm.Model.CellMethods
import Cfdm.Spec.Codec
/-
Driver for C01.

  C01.write sc=0|1 co=0|1 <field>   → <file>  |  raised:<enum>  |  outside:<reason>
  C01.writeold …                    → the same for the writer without fixes/C01-inserted-axis-auxiliary-coordinate.patch
  C01.read  <file>                  → <field> ## <field> …   (`none` when no field)
  C01.class <field>                 → A=<0|1> B=<0|1> shared=<0|1>   (membership of the proved classes)

<field> = nc=<name|_> P=<props> D=<id>:<0|1> DA=<axes> A=[key;size;ncdim;unl,…]
          C=[key;type;ncvar;data;axes;bounds;clim;measure;ext;props,…] M=<cms>
          R=[key;ncvar;coords;params;datum;terms,…]
<file>  = D=[name:size:unl,…] V=[name;dims;isStr;data;attrs;bounds;clim;coords;measures;anc;words;ft;gm,…]
          G=<props> E=<names>
props   = `_` | name~value|name~value          names/axes/dims = `n` | a+b+c
data    = `_` | id:<0|1>                        bounds = `_` | ncvar&ncdim&id:<0|1>&nverts&props
cms     = `n` | axes^method^quals&axes^method^quals      measures = `n` | measure:var+measure:var
terms   = `n` | term:key+term:_                 ft = `n` | term:var+term:var
gm      = `n` | var&var^coord+coord             (`var` alone: the short form of the attribute)
words   = the `cell_methods` attribute after the reader's two substitutions and `split()`, `n` | w+w+w
Blanks inside names are written `·`; no name contains any of ,;+~:=[]|&^#.  The words of a
`cell_methods` attribute and the values of cell method qualifiers are percent-encoded (`%28` = `(`).

`C01.read` answers with the fields predicted for the reader with the proposed patches; when a
reader without one of them (units of a cell method interval: fixes/C01-cell-method-interval-units.patch;
a grid mapping variable that only gives a vertical datum: fixes/C01-vertical-datum-grid-mapping-referenced.patch)
is predicted to give something else, ` %%OLD%% ` and that prediction follow.
-/
namespace Cfdm.Driver.C01
open Cfdm.Driver Cfdm.Codec

def dec (s : String) : String := s.replace "·" " "
def enc (s : String) : String := s.replace " " "·"

def optName (s : String) : Option String := if s == "_" then none else some (dec s)
def showOpt (o : Option String) : String := match o with | none => "_" | some s => enc s

def parseBool (s : String) : Option Bool := if s == "1" then some true else if s == "0" then some false else none
def showBool (b : Bool) : String := if b then "1" else "0"

def parseNames (s : String) : List String := if s == "n" then [] else (s.splitOn "+").map dec
def showNames (l : List String) : String := if l.isEmpty then "n" else String.intercalate "+" (l.map enc)

def parseProps (s : String) : Option Props :=
  if s == "_" then some [] else
  (s.splitOn "|").mapM (fun t => match t.splitOn "~" with
    | [k, v] => some (dec k, dec v)
    | _ => none)

def insertProp (a : String × String) : Props → Props
  | [] => [a]
  | b :: bs => if a.1 ≤ b.1 then a :: b :: bs else b :: insertProp a bs
def sortProps : Props → Props
  | [] => []
  | a :: as => insertProp a (sortProps as)

def showProps (p : Props) : String :=
  if p.isEmpty then "_" else String.intercalate "|" ((sortProps p).map (fun kv => enc kv.1 ++ "~" ++ enc kv.2))

def parseArr (s : String) : Option (Option ArrRef) :=
  if s == "_" then some none else
  match s.splitOn ":" with
  | [i, b] => do
    let i ← i.toNat?
    let b ← parseBool b
    some (some ⟨i, b⟩)
  | _ => none

def showArr : Option ArrRef → String
  | none => "_"
  | some a => toString a.id ++ ":" ++ showBool a.isStr

def parseBounds (s : String) : Option (Option MBounds) :=
  if s == "_" then some none else
  match s.splitOn "&" with
  | [v, d, a, n, p] => do
    let a ← parseArr a
    let a ← a
    let n ← n.toNat?
    let p ← parseProps p
    some (some { props := p, ncvar := optName v, ncdim := optName d, data := a, nverts := n })
  | _ => none

def showBounds : Option MBounds → String
  | none => "_"
  | some b => showOpt b.ncvar ++ "&" ++ showOpt b.ncdim ++ "&" ++ showArr (some b.data) ++ "&" ++ toString b.nverts ++ "&" ++ showProps b.props

def typeNames : List (String × CType) := [("dim", .dim), ("aux", .aux), ("msr", .msr), ("fan", .fan), ("dan", .dan)]
def parseType (s : String) : Option CType := (typeNames.find? (·.1 == s)).map (·.2)
def showType (t : CType) : String := ((typeNames.find? (fun p => p.2 = t)).map (·.1)).getD "?"

def listBody (s : String) : Option (List String) := do
  let inner ← stripBrackets s
  if inner.isEmpty then some [] else some (inner.splitOn ",")

def parseAxis (s : String) : Option (Key × MAxis) :=
  match s.splitOn ";" with
  | [k, size, nc, u] => do
    let size ← size.toNat?
    let u ← parseBool u
    some (dec k, ⟨size, optName nc, u⟩)
  | _ => none

def showAxis (a : Key × MAxis) : String :=
  enc a.1 ++ ";" ++ toString a.2.size ++ ";" ++ showOpt a.2.ncdim ++ ";" ++ showBool a.2.unlimited

def parseEntry (s : String) : Option Entry :=
  match s.splitOn ";" with
  | [k, t, v, d, ax, b, cl, m, ex, p] => do
    let t ← parseType t
    let d ← parseArr d
    let b ← parseBounds b
    let cl ← parseBool cl
    let ex ← parseBool ex
    let p ← parseProps p
    some (dec k, { ctype := t, props := p, ncvar := optName v, data := d, bounds := b, climatology := cl,
                   measure := optName m, external := ex }, parseNames ax)
  | _ => none

def showEntry (e : Entry) : String :=
  String.intercalate ";" [enc e.key, showType e.con.ctype, showOpt e.con.ncvar, showArr e.con.data, showNames e.axes,
    showBounds e.con.bounds, showBool e.con.climatology, showOpt e.con.measure, showBool e.con.external, showProps e.con.props]

/-! Percent-encoding of arbitrary words. -/

def hexDigit (n : Nat) : Char := if n < 10 then Char.ofNat (48 + n) else Char.ofNat (55 + n)
def hexVal (c : Char) : Option Nat :=
  if '0' ≤ c ∧ c ≤ '9' then some (c.toNat - 48)
  else if 'A' ≤ c ∧ c ≤ 'F' then some (c.toNat - 55)
  else if 'a' ≤ c ∧ c ≤ 'f' then some (c.toNat - 87)
  else none

def plainChar (c : Char) : Bool := c.isAlphanum || c == '_' || c == '.' || c == '-'

def pctEncodeL : List Char → List Char
  | [] => []
  | c :: cs => if plainChar c then c :: pctEncodeL cs else '%' :: hexDigit (c.toNat / 16) :: hexDigit (c.toNat % 16) :: pctEncodeL cs

def pctDecodeL : List Char → List Char
  | '%' :: a :: b :: cs =>
    match hexVal a, hexVal b with
    | some x, some y => Char.ofNat (16 * x + y) :: pctDecodeL cs
    | _, _ => '%' :: pctDecodeL (a :: b :: cs)
  | c :: cs => c :: pctDecodeL cs
  | [] => []

def pctEncode (s : String) : String := String.ofList (pctEncodeL s.toList)
def pctDecode (s : String) : String := String.ofList (pctDecodeL s.toList)

def parseWords (s : String) : List Cfdm.CellMethods.Word := if s == "n" then [] else (s.splitOn "+").map (fun w => pctDecodeL w.toList)
/-- (`str.split()` drops the empty word that a cell method without a method leaves.) -/
def showWords (l : List Cfdm.CellMethods.Word) : String :=
  let l := l.filter (fun w => !w.isEmpty)
  if l.isEmpty then "n" else String.intercalate "+" (l.map (fun w => String.ofList (pctEncodeL w)))

/-- `literal_eval` accepts the value of an interval: here, a number. -/
def isNumeral (w : Cfdm.CellMethods.Word) : Bool :=
  !w.isEmpty && w.all (fun c => c.isDigit || c == '.' || c == '-' || c == '+' || c == 'e' || c == 'E') && w.any Char.isDigit

/-- A cell method of the codec model (qualifiers as pairs) from one of the string model. -/
def cmToM (c : Cfdm.CellMethods.CM) : MCellMethod :=
  let q (k : String) (v : Option Cfdm.CellMethods.Word) : Props := match v with | some w => [(k, String.ofList w)] | none => []
  { axes := c.axes.map String.ofList
    method := if c.method.isEmpty then none else some (String.ofList c.method)
    quals := q "within" c.within ++ q "where" c.where_ ++ q "over" c.over
             ++ c.intervals.map (fun i => ("interval", String.ofList i.1 ++ (match i.2 with | some u => " " ++ String.ofList u | none => "")))
             ++ (match c.comment with | some ws => [("comment", String.intercalate " " (ws.map String.ofList))] | none => []) }

def cmOfM (m : MCellMethod) : Cfdm.CellMethods.CM :=
  let g (k : String) : Option Cfdm.CellMethods.Word := (m.quals.lookup k).map String.toList
  { axes := m.axes.map String.toList
    method := (m.method.getD "").toList
    within := g "within", where_ := g "where", over := g "over"
    intervals := (m.quals.filter (fun q => q.1 == "interval")).map (fun q =>
      match q.2.splitOn " " with
      | [v] => (v.toList, none)
      | v :: us => (v.toList, some (String.intercalate " " us).toList)
      | [] => ([], none))
    comment := (m.quals.lookup "comment").map (fun c => if c.isEmpty then [] else (c.splitOn " ").map String.toList) }

def parseQuals (s : String) : Option Props :=
  if s == "_" then some [] else
  (s.splitOn "|").mapM (fun t => match t.splitOn "~" with
    | [k, v] => some (dec k, pctDecode v)
    | _ => none)

def parseCM (s : String) : Option MCellMethod :=
  match s.splitOn "^" with
  | [ax, m, q] => do
    let q ← parseQuals q
    some { axes := parseNames ax, method := optName m, quals := q }
  | _ => none

/-- Qualifiers keep their order (several `interval` entries). -/
def showQuals (p : Props) : String :=
  if p.isEmpty then "_" else String.intercalate "|" (p.map (fun kv => enc kv.1 ++ "~" ++ pctEncode kv.2))

def showCM (c : MCellMethod) : String := showNames c.axes ++ "^" ++ showOpt c.method ++ "^" ++ showQuals c.quals

def parseCMs (s : String) : Option (List MCellMethod) := if s == "n" then some [] else (s.splitOn "&").mapM parseCM
def showCMs (l : List MCellMethod) : String := if l.isEmpty then "n" else String.intercalate "&" (l.map showCM)

def parseTerms (s : String) : Option (List (String × Option Key)) :=
  if s == "n" then some [] else
  (s.splitOn "+").mapM (fun t => match t.splitOn ":" with
    | [a, b] => some (dec a, optName b)
    | _ => none)

def showTerms (l : List (String × Option Key)) : String :=
  if l.isEmpty then "n" else String.intercalate "+" (l.map (fun tk => enc tk.1 ++ ":" ++ showOpt tk.2))

def parseRef (s : String) : Option (Key × MRef) :=
  match s.splitOn ";" with
  | [k, v, cs, ps, ds, ts] => do
    let ps ← parseProps ps
    let ds ← parseProps ds
    let ts ← parseTerms ts
    some (dec k, { ncvar := optName v, coords := parseNames cs, params := ps, datum := ds, terms := ts })
  | _ => none

def showRef (kr : Key × MRef) : String :=
  String.intercalate ";" [enc kr.1, showOpt kr.2.ncvar, showNames kr.2.coords, showProps kr.2.params, showProps kr.2.datum,
    showTerms kr.2.terms]

def parseField (kv : KV) : Option MField := do
  let nc ← kv.get? "nc"
  let p ← (← kv.get? "P") |> parseProps
  let d ← (← kv.get? "D") |> parseArr
  let d ← d
  let da ← kv.get? "DA"
  let a ← (← listBody (← kv.get? "A")).mapM parseAxis
  let c ← (← listBody (← kv.get? "C")).mapM parseEntry
  let m ← (← kv.get? "M") |> parseCMs
  let r ← (← listBody (← kv.get? "R")).mapM parseRef
  some { props := p, ncvar := optName nc, data := d, dataAxes := parseNames da, axes := a, cons := c, cms := m, refs := r }

def showField (f : MField) : String :=
  "nc=" ++ showOpt f.ncvar ++ " P=" ++ showProps f.props ++ " D=" ++ showArr (some f.data) ++ " DA=" ++ showNames f.dataAxes
  ++ " A=[" ++ String.intercalate "," (f.axes.map showAxis) ++ "]"
  ++ " C=[" ++ String.intercalate "," (f.cons.map showEntry) ++ "]"
  ++ " M=" ++ showCMs f.cms
  ++ " R=[" ++ String.intercalate "," (f.refs.map showRef) ++ "]"

def parseDim (s : String) : Option NcDim :=
  match s.splitOn ":" with
  | [n, size, u] => do
    let size ← size.toNat?
    let u ← parseBool u
    some ⟨dec n, size, u⟩
  | _ => none

def showDim (d : NcDim) : String := enc d.name ++ ":" ++ toString d.size ++ ":" ++ showBool d.unlimited

def parseMeasures (s : String) : Option (List (String × String)) :=
  if s == "n" then some [] else
  (s.splitOn "+").mapM (fun t => match t.splitOn ":" with
    | [m, v] => some (dec m, dec v)
    | _ => none)

def showMeasures (l : List (String × String)) : String :=
  if l.isEmpty then "n" else String.intercalate "+" (l.map (fun mv => enc mv.1 ++ ":" ++ enc mv.2))

def parseGM (s : String) : Option (List (String × List String)) :=
  if s == "n" then some [] else
  (s.splitOn "&").mapM (fun t => match t.splitOn "^" with
    | [v] => some (dec v, [])
    | [v, cs] => some (dec v, parseNames cs)
    | _ => none)

def showGM (l : List (String × List String)) : String :=
  if l.isEmpty then "n" else String.intercalate "&" (l.map (fun g => if g.2.isEmpty then enc g.1 else enc g.1 ++ "^" ++ showNames g.2))

/-- A variable of a file line: the variable (its cell methods parsed with `stop`), its
`formula_terms` and its `grid_mapping`. -/
def parseVar (stop : Cfdm.CellMethods.Word → Bool) (s : String) :
    Option (NcVar × List (String × String) × List (String × List String)) :=
  match s.splitOn ";" with
  | [n, dims, st, d, att, b, cl, co, ms, an, ws, ft, gm] => do
    let st ← parseBool st
    let d ← if d == "_" then some none else d.toNat?.map some
    let att ← parseProps att
    let ms ← parseMeasures ms
    let ft ← parseMeasures ft
    let gm ← parseGM gm
    let cm := ((Cfdm.CellMethods.parse stop isNumeral (parseWords ws)).getD []).map cmToM
    some ({ name := dec n, dims := parseNames dims, isStr := st, data := d, attrs := att, bounds := optName b,
            climatology := optName cl, coordinates := parseNames co, cellMeasures := ms, ancillary := parseNames an,
            cellMethods := cm }, ft, gm)
  | _ => none

def showVar (nc : NcFile) (v : NcVar) : String :=
  String.intercalate ";" [enc v.name, showNames v.dims, showBool v.isStr,
    (match v.data with | none => "_" | some i => toString i), showProps v.attrs, showOpt v.bounds, showOpt v.climatology,
    showNames v.coordinates, showMeasures v.cellMeasures, showNames v.ancillary,
    showWords (Cfdm.CellMethods.writeCMs (v.cellMethods.map cmOfM)),
    showMeasures ((nc.formulaTerms.lookup v.name).getD []), showGM ((nc.gridMapping.lookup v.name).getD [])]

def parseFile (stop : Cfdm.CellMethods.Word → Bool) (kv : KV) : Option NcFile := do
  let d ← (← listBody (← kv.get? "D")).mapM parseDim
  let v ← (← listBody (← kv.get? "V")).mapM (parseVar stop)
  let g ← (← kv.get? "G") |> parseProps
  let e ← kv.get? "E"
  some { dims := d, vars := v.map (·.1), globals := g, externals := parseNames e
         formulaTerms := v.filterMap (fun x => if x.2.1.isEmpty then none else some (x.1.name, x.2.1))
         gridMapping := v.filterMap (fun x => if x.2.2.isEmpty then none else some (x.1.name, x.2.2)) }

def showFile (nc : NcFile) : String :=
  "D=[" ++ String.intercalate "," (nc.dims.map showDim) ++ "]"
  ++ " V=[" ++ String.intercalate "," (nc.vars.map (showVar nc)) ++ "]"
  ++ " G=" ++ showProps nc.globals ++ " E=" ++ showNames nc.externals

def showErr : Err → String
  | .valueError => "raised:ValueError"
  | .nameInUse => "raised:RuntimeError"
  | .keyError => "raised:KeyError"

/-- Is the field inside the class of the writer model?  Two constructs that would share one
netCDF variable are outside it, except a domain ancillary that is equal to a coordinate construct
or to an earlier domain ancillary (`danPlan`). -/
def sharedOutside (o : Opts) (f : MField) : Bool :=
  match applyCsn f with
  | .error _ => false
  | .ok f' =>
    let shared := ((danPlan f' (axesPhase o f')).filter (fun p => p.2.isSome)).map (fun p => p.1.key)
    !noShared { f' with cons := f'.cons.filter (fun e => !shared.contains e.key) } f'.dataAxes

def showFields (fs : List MField) : String :=
  match fs with
  | [] => "none"
  | fs => String.intercalate " ## " (fs.map showField)

def run (sub : String) (kv : KV) : String :=
  match sub with
  | "write" =>
    match parseField kv, (kv.get? "sc").bind parseBool, (kv.get? "co").bind parseBool with
    | some f, some sc, some co =>
      if sharedOutside { scalar := sc, coordinates := co } f then "outside:shared-variable" else
      match writeField { scalar := sc, coordinates := co } f with
      | .ok nc => showFile nc
      | .error e => showErr e
    | _, _, _ => "bad-op"
  | "writeold" =>
    match parseField kv, (kv.get? "sc").bind parseBool, (kv.get? "co").bind parseBool with
    | some f, some sc, some co =>
      if sharedOutside { scalar := sc, coordinates := co } f then "outside:shared-variable" else
      match writeFieldOld { scalar := sc, coordinates := co } f with
      | .ok nc => showFile nc
      | .error e => showErr e
    | _, _, _ => "bad-op"
  | "class" =>
    -- is the field in the class of the round-trip theorems? (informational)
    match parseField kv with
    | some f =>
      let shared := (danPlan f (axesPhase {} f)).any (fun p => p.2.isSome)
      "A=" ++ showBool (decide (WFField f)) ++ " B=" ++ showBool (decide (WFFieldB f)) ++ " shared=" ++ showBool shared
    | none => "bad-op"
  | "read" =>
    match parseFile Cfdm.CellMethods.stopNew kv, parseFile Cfdm.CellMethods.stopOld kv with
    | some nc, some ncOld =>
      -- the reader with the proposed patches, then the readers without one or the other
      let preds := [showFields (readFile nc), showFields (readFileOld nc), showFields (readFile ncOld), showFields (readFileOld ncOld)]
      String.intercalate " %%OLD%% " preds.eraseDups
    | _, _ => "bad-op"
  | _ => "bad-op"

end Cfdm.Driver.C01
