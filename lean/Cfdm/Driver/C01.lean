import Cfdm.Driver.Parse
import Cfdm.Model.Codec
/-
Driver for C01.

  C01.write sc=0|1 co=0|1 <field>   → <file>  |  raised:<enum>  |  outside:<reason>
  C01.writeold …                    → the same for the writer without fixes/C01-inserted-axis-auxiliary-coordinate.patch
  C01.read  <file>                  → <field> ## <field> …   (`none` when no field)

<field> = nc=<name|_> P=<props> D=<id>:<0|1> DA=<axes> A=[key;size;ncdim;unl,…]
          C=[key;type;ncvar;data;axes;bounds;clim;measure;ext;props,…] M=<cms>
<file>  = D=[name:size:unl,…] V=[name;dims;isStr;data;attrs;bounds;clim;coords;measures;anc;cms,…]
          G=<props> E=<names>
props   = `_` | name~value|name~value          names/axes/dims = `n` | a+b+c
data    = `_` | id:<0|1>                        bounds = `_` | ncvar&ncdim&id:<0|1>&nverts&props
cms     = `n` | axes^method^quals&axes^method^quals      measures = `n` | measure:var+measure:var
Blanks inside names are written `·`; no name contains any of ,;+~:=[]|&^#.
-/
namespace Cfdm.Driver.C01
open Cfdm.Driver Cfdm.Codec

def dec (s : String) : String := s.replace "·" " "
def enc (s : String) : String := s.replace " " "·"

def optName (s : String) : Option String := if s == "_" then none else some (dec s)
def showOpt (o : Option String) : String := match o with | none => "_" | some s => enc s

def parseBool (s : String) : Option Bool := if s == "1" then some true else if s == "0" then some false else none
def showBool (b : Bool) : String := if b then "1" else "0"

def parseNames (s : String) : List String := if s == "n" then [] else (s.splitOn "+").map dec
def showNames (l : List String) : String := if l.isEmpty then "n" else String.intercalate "+" (l.map enc)

def parseProps (s : String) : Option Props :=
  if s == "_" then some [] else
  (s.splitOn "|").mapM (fun t => match t.splitOn "~" with
    | [k, v] => some (dec k, dec v)
    | _ => none)

def insertProp (a : String × String) : Props → Props
  | [] => [a]
  | b :: bs => if a.1 ≤ b.1 then a :: b :: bs else b :: insertProp a bs
def sortProps : Props → Props
  | [] => []
  | a :: as => insertProp a (sortProps as)

def showProps (p : Props) : String :=
  if p.isEmpty then "_" else String.intercalate "|" ((sortProps p).map (fun kv => enc kv.1 ++ "~" ++ enc kv.2))

def parseArr (s : String) : Option (Option ArrRef) :=
  if s == "_" then some none else
  match s.splitOn ":" with
  | [i, b] => do
    let i ← i.toNat?
    let b ← parseBool b
    some (some ⟨i, b⟩)
  | _ => none

def showArr : Option ArrRef → String
  | none => "_"
  | some a => toString a.id ++ ":" ++ showBool a.isStr

def parseBounds (s : String) : Option (Option MBounds) :=
  if s == "_" then some none else
  match s.splitOn "&" with
  | [v, d, a, n, p] => do
    let a ← parseArr a
    let a ← a
    let n ← n.toNat?
    let p ← parseProps p
    some (some { props := p, ncvar := optName v, ncdim := optName d, data := a, nverts := n })
  | _ => none

def showBounds : Option MBounds → String
  | none => "_"
  | some b => showOpt b.ncvar ++ "&" ++ showOpt b.ncdim ++ "&" ++ showArr (some b.data) ++ "&" ++ toString b.nverts ++ "&" ++ showProps b.props

def typeNames : List (String × CType) := [("dim", .dim), ("aux", .aux), ("msr", .msr), ("fan", .fan)]
def parseType (s : String) : Option CType := (typeNames.find? (·.1 == s)).map (·.2)
def showType (t : CType) : String := ((typeNames.find? (fun p => p.2 = t)).map (·.1)).getD "?"

def listBody (s : String) : Option (List String) := do
  let inner ← stripBrackets s
  if inner.isEmpty then some [] else some (inner.splitOn ",")

def parseAxis (s : String) : Option (Key × MAxis) :=
  match s.splitOn ";" with
  | [k, size, nc, u] => do
    let size ← size.toNat?
    let u ← parseBool u
    some (dec k, ⟨size, optName nc, u⟩)
  | _ => none

def showAxis (a : Key × MAxis) : String :=
  enc a.1 ++ ";" ++ toString a.2.size ++ ";" ++ showOpt a.2.ncdim ++ ";" ++ showBool a.2.unlimited

def parseEntry (s : String) : Option Entry :=
  match s.splitOn ";" with
  | [k, t, v, d, ax, b, cl, m, ex, p] => do
    let t ← parseType t
    let d ← parseArr d
    let b ← parseBounds b
    let cl ← parseBool cl
    let ex ← parseBool ex
    let p ← parseProps p
    some (dec k, { ctype := t, props := p, ncvar := optName v, data := d, bounds := b, climatology := cl,
                   measure := optName m, external := ex }, parseNames ax)
  | _ => none

def showEntry (e : Entry) : String :=
  String.intercalate ";" [enc e.key, showType e.con.ctype, showOpt e.con.ncvar, showArr e.con.data, showNames e.axes,
    showBounds e.con.bounds, showBool e.con.climatology, showOpt e.con.measure, showBool e.con.external, showProps e.con.props]

def parseCM (s : String) : Option MCellMethod :=
  match s.splitOn "^" with
  | [ax, m, q] => do
    let q ← parseProps q
    some { axes := parseNames ax, method := optName m, quals := q }
  | _ => none

/-- Qualifiers keep their order (several `interval` entries). -/
def showQuals (p : Props) : String :=
  if p.isEmpty then "_" else String.intercalate "|" (p.map (fun kv => enc kv.1 ++ "~" ++ enc kv.2))

def showCM (c : MCellMethod) : String := showNames c.axes ++ "^" ++ showOpt c.method ++ "^" ++ showQuals c.quals

def parseCMs (s : String) : Option (List MCellMethod) := if s == "n" then some [] else (s.splitOn "&").mapM parseCM
def showCMs (l : List MCellMethod) : String := if l.isEmpty then "n" else String.intercalate "&" (l.map showCM)

def parseField (kv : KV) : Option MField := do
  let nc ← kv.get? "nc"
  let p ← (← kv.get? "P") |> parseProps
  let d ← (← kv.get? "D") |> parseArr
  let d ← d
  let da ← kv.get? "DA"
  let a ← (← listBody (← kv.get? "A")).mapM parseAxis
  let c ← (← listBody (← kv.get? "C")).mapM parseEntry
  let m ← (← kv.get? "M") |> parseCMs
  some { props := p, ncvar := optName nc, data := d, dataAxes := parseNames da, axes := a, cons := c, cms := m }

def showField (f : MField) : String :=
  "nc=" ++ showOpt f.ncvar ++ " P=" ++ showProps f.props ++ " D=" ++ showArr (some f.data) ++ " DA=" ++ showNames f.dataAxes
  ++ " A=[" ++ String.intercalate "," (f.axes.map showAxis) ++ "]"
  ++ " C=[" ++ String.intercalate "," (f.cons.map showEntry) ++ "]"
  ++ " M=" ++ showCMs f.cms

def parseDim (s : String) : Option NcDim :=
  match s.splitOn ":" with
  | [n, size, u] => do
    let size ← size.toNat?
    let u ← parseBool u
    some ⟨dec n, size, u⟩
  | _ => none

def showDim (d : NcDim) : String := enc d.name ++ ":" ++ toString d.size ++ ":" ++ showBool d.unlimited

def parseMeasures (s : String) : Option (List (String × String)) :=
  if s == "n" then some [] else
  (s.splitOn "+").mapM (fun t => match t.splitOn ":" with
    | [m, v] => some (dec m, dec v)
    | _ => none)

def showMeasures (l : List (String × String)) : String :=
  if l.isEmpty then "n" else String.intercalate "+" (l.map (fun mv => enc mv.1 ++ ":" ++ enc mv.2))

def parseVar (s : String) : Option NcVar :=
  match s.splitOn ";" with
  | [n, dims, st, d, att, b, cl, co, ms, an, cm] => do
    let st ← parseBool st
    let d ← if d == "_" then some none else d.toNat?.map some
    let att ← parseProps att
    let ms ← parseMeasures ms
    let cm ← parseCMs cm
    some { name := dec n, dims := parseNames dims, isStr := st, data := d, attrs := att, bounds := optName b,
           climatology := optName cl, coordinates := parseNames co, cellMeasures := ms, ancillary := parseNames an,
           cellMethods := cm }
  | _ => none

def showVar (v : NcVar) : String :=
  String.intercalate ";" [enc v.name, showNames v.dims, showBool v.isStr,
    (match v.data with | none => "_" | some i => toString i), showProps v.attrs, showOpt v.bounds, showOpt v.climatology,
    showNames v.coordinates, showMeasures v.cellMeasures, showNames v.ancillary, showCMs v.cellMethods]

def parseFile (kv : KV) : Option NcFile := do
  let d ← (← listBody (← kv.get? "D")).mapM parseDim
  let v ← (← listBody (← kv.get? "V")).mapM parseVar
  let g ← (← kv.get? "G") |> parseProps
  let e ← kv.get? "E"
  some { dims := d, vars := v, globals := g, externals := parseNames e }

def showFile (nc : NcFile) : String :=
  "D=[" ++ String.intercalate "," (nc.dims.map showDim) ++ "]"
  ++ " V=[" ++ String.intercalate "," (nc.vars.map showVar) ++ "]"
  ++ " G=" ++ showProps nc.globals ++ " E=" ++ showNames nc.externals

def showErr : Err → String
  | .valueError => "raised:ValueError"
  | .nameInUse => "raised:RuntimeError"
  | .keyError => "raised:KeyError"

def run (sub : String) (kv : KV) : String :=
  match sub with
  | "write" =>
    match parseField kv, (kv.get? "sc").bind parseBool, (kv.get? "co").bind parseBool with
    | some f, some sc, some co =>
      if !noShared f f.dataAxes then "outside:shared-variable" else
      match writeField { scalar := sc, coordinates := co } f with
      | .ok nc => showFile nc
      | .error e => showErr e
    | _, _, _ => "bad-op"
  | "writeold" =>
    match parseField kv, (kv.get? "sc").bind parseBool, (kv.get? "co").bind parseBool with
    | some f, some sc, some co =>
      if !noShared f f.dataAxes then "outside:shared-variable" else
      match writeFieldOld { scalar := sc, coordinates := co } f with
      | .ok nc => showFile nc
      | .error e => showErr e
    | _, _, _ => "bad-op"
  | "read" =>
    match parseFile kv with
    | some nc =>
      match readFile nc with
      | [] => "none"
      | fs => String.intercalate " ## " (fs.map showField)
    | none => "bad-op"
  | _ => "bad-op"

end Cfdm.Driver.C01
