import Cfdm.Driver.Parse
import Cfdm.Model.Geometry
namespace Cfdm.Driver.C14
open Cfdm.Driver Cfdm.Geometry

/-- `-` = attribute absent, else a list. -/
def parseOptNatList (s : String) : Option (Option (List Nat)) :=
  if s == "-" then some none else (parseNatList s).map some

def parseOptIntList' (s : String) : Option (Option (List Int)) :=
  if s == "-" then some none else (parseIntList s).map some

/-- `[2,3;3;4,2]`: per cell a comma-separated list. -/
def parseNested {β} (f : String → Option β) (s : String) : Option (List (List β)) :=
  parseListWith (fun t => if t.isEmpty then none else (t.splitOn ",").mapM f) ';' s

def showOpt {β} (f : β → String) (l : List (Option β)) : String :=
  "[" ++ String.intercalate "," (l.map (fun o => match o with | none => "--" | some n => f n)) ++ "]"

def parseOld (kv : KV) : Option Bool :=
  match kv.get? "old" with
  | none => some false
  | some "1" => some true
  | some "0" => some false
  | _ => none

/-- `read`: what `cfdm.read` presents for a hand-encoded container whose node
values are their file offsets. -/
def runRead (kv : KV) : String :=
  match (do
    let ncells ← (← kv.get? "ncells").toNat?
    let nnodes ← (← kv.get? "nnodes").toNat?
    let nc ← parseOptNatList (← kv.get? "nc")
    let pnc ← parseOptNatList (← kv.get? "pnc")
    let ring ← parseOptIntList' (← kv.get? "ring")
    let old ← parseOld kv
    some (ncells, nnodes, nc, pnc, ring, old)) with
  | none => "bad-op"
  | some (ncells, nnodes, nc, pnc, ring, old) =>
    if (defaultNodeCount nc nnodes).length != ncells then "bad-op" else
    let nodes := List.range nnodes
    let b := readBounds (!old) nc pnc nodes
    let cshape := coordShape none (some (shape3 b)) true
    let ringS := match pnc, ring with
      | some pnc, some flags => showOpt toString (readRing (!old) nc nnodes pnc flags).flatten
      | _, _ => "-"
    match cshape with
    | none => "bad-op"
    | some cs =>
      s!"cshape={showNatList cs} shape={showNatList (shape3 b)} b={showOpt toString b.flatten.flatten} ring={ringS}"

/-- Cells of node offsets from the per-cell part sizes. -/
def idCells : Nat → List (List Nat) → Cells Nat
  | _, [] => []
  | o, c :: cs =>
    let rec parts : Nat → List Nat → List (List Nat)
      | _, [] => []
      | o, m :: ms => (List.range' o m) :: parts (o + m) ms
    parts o c :: idCells (o + c.sum) cs

/-- `write`: the node, count and ring variables `cfdm.write` creates for a field
whose bounds are the padded cells. -/
def runWrite (kv : KV) : String :=
  match (do
    let cells ← parseNested String.toNat? (← kv.get? "cells")
    let ringS ← kv.get? "ring"
    let ring ← if ringS == "-" then some none else (parseNested parseInt? ringS).map some
    let old ← parseOld kv
    some (cells, ring, old)) with
  | none => "bad-op"
  | some (cells, ring, old) =>
    if cells.isEmpty || cells.any (fun c => c.any (· == 0)) then "bad-op" else
    if (match ring with | none => false | some r => r.map List.length != cells.map List.length) then "bad-op" else
    let b := padSpec (idCells 0 cells)
    let pnc := if old then wPartNodeCountOld b else wPartNodeCount b ring.isSome
    -- as coded, a part_node_count with zeros inside and the compressed ring variable
    -- are written on the same dimension: netCDF4 refuses the second one
    if old && (match pnc, ring with
        | some l, some r => l.length != r.flatten.length
        | _, _ => false) then "raised:ValueError" else
    let pncS := match pnc with | none => "-" | some l => showNatList l
    let ringOut := match ring with | none => "-" | some r => showIntList (wRing (padRows r))
    s!"nc={showNatList (wNodeCount b)} pnc={pncS} ring={ringOut} nodes={showNatList (wNodes b)}"

def run (sub : String) (kv : KV) : String :=
  match sub with
  | "read" => runRead kv
  | "write" => runWrite kv
  | _ => "bad-op"

end Cfdm.Driver.C14
