import Cfdm.Driver.Parse
import Cfdm.Model.Geometry
import Cfdm.Model.GeometryWrite
import Cfdm.Model.GeometryOps
namespace Cfdm.Driver.C14
open Cfdm.Driver Cfdm.Geometry

/-- `-` = attribute absent, else a list. -/
def parseOptNatList (s : String) : Option (Option (List Nat)) :=
  if s == "-" then some none else (parseNatList s).map some

def parseOptIntList' (s : String) : Option (Option (List Int)) :=
  if s == "-" then some none else (parseIntList s).map some

/-- `[2,3;3;4,2]`: per cell a comma-separated list. -/
def parseNested {β} (f : String → Option β) (s : String) : Option (List (List β)) :=
  parseListWith (fun t => if t.isEmpty then none else (t.splitOn ",").mapM f) ';' s

def showOpt {β} (f : β → String) (l : List (Option β)) : String :=
  "[" ++ String.intercalate "," (l.map (fun o => match o with | none => "--" | some n => f n)) ++ "]"

def parseOld (kv : KV) : Option Bool :=
  match kv.get? "old" with
  | none => some false
  | some "1" => some true
  | some "0" => some false
  | _ => none

/-- What `cfdm.read` presents for one container whose node values are their file offsets. -/
def readOut (ncells nnodes : Nat) (nc pnc : Option (List Nat)) (ring : Option (List Int)) (old : Bool) : String :=
    if (defaultNodeCount nc nnodes).length != ncells then "bad-op" else
    let nodes := List.range nnodes
    let b := readBounds (!old) nc pnc nodes
    let cshape := coordShape none (some (shape3 b)) true
    let ringS := match pnc, ring with
      | some pnc, some flags => showOpt toString (readRing (!old) nc nnodes pnc flags).flatten
      | _, _ => "-"
    match cshape with
    | none => "bad-op"
    | some cs =>
      s!"cshape={showNatList cs} shape={showNatList (shape3 b)} b={showOpt toString b.flatten.flatten} ring={ringS}"

/-- `read`: what `cfdm.read` presents for a hand-encoded container whose node
values are their file offsets. -/
def runRead (kv : KV) : String :=
  match (do
    let ncells ← (← kv.get? "ncells").toNat?
    let nnodes ← (← kv.get? "nnodes").toNat?
    let nc ← parseOptNatList (← kv.get? "nc")
    let pnc ← parseOptNatList (← kv.get? "pnc")
    let ring ← parseOptIntList' (← kv.get? "ring")
    let old ← parseOld kv
    some (ncells, nnodes, nc, pnc, ring, old)) with
  | none => "bad-op"
  | some (ncells, nnodes, nc, pnc, ring, old) => readOut ncells nnodes nc pnc ring old

/-- `mread`: several containers in one file, several data variables; every data
variable is presented the cells of the container it names (containers are
decoded independently of each other). `c<j>=ncells/nnodes/nc/pnc/ring`. -/
def runMread (kv : KV) : String :=
  match (do
    let n ← (← kv.get? "n").toNat?
    let cs ← (List.range n).mapM (fun j => do
      match (← kv.get? s!"c{j}").splitOn "/" with
      | [ncells, nnodes, nc, pnc, ring] =>
        some ((← ncells.toNat?), (← nnodes.toNat?), (← parseOptNatList nc), (← parseOptNatList pnc),
              (← parseOptIntList' ring))
      | _ => none)
    let vars ← parseNatList (← kv.get? "vars")
    some (cs, vars)) with
  | none => "bad-op"
  | some (cs, vars) =>
    if vars.isEmpty || vars.any (· ≥ cs.length) then "bad-op" else
    let outs := vars.map (fun j =>
      match cs[j]? with
      | some (ncells, nnodes, nc, pnc, ring) => readOut ncells nnodes nc pnc ring false
      | none => "bad-op")
    if outs.contains "bad-op" then "bad-op" else String.intercalate " | " outs

/-- Cells of node offsets from the per-cell part sizes. -/
def idCells : Nat → List (List Nat) → Cells Nat
  | _, [] => []
  | o, c :: cs =>
    let rec parts : Nat → List Nat → List (List Nat)
      | _, [] => []
      | o, m :: ms => (List.range' o m) :: parts (o + m) ms
    parts o c :: idCells (o + c.sum) cs

/-- `write`: the node, count and ring variables `cfdm.write` creates for a field
whose bounds are the padded cells. -/
def runWrite (kv : KV) : String :=
  match (do
    let cells ← parseNested String.toNat? (← kv.get? "cells")
    let ringS ← kv.get? "ring"
    let ring ← if ringS == "-" then some none else (parseNested parseInt? ringS).map some
    let old ← parseOld kv
    some (cells, ring, old)) with
  | none => "bad-op"
  | some (cells, ring, old) =>
    if cells.isEmpty || cells.any (fun c => c.any (· == 0)) then "bad-op" else
    if (match ring with | none => false | some r => r.map List.length != cells.map List.length) then "bad-op" else
    let b := padSpec (idCells 0 cells)
    let pnc := if old then wPartNodeCountOld b else wPartNodeCount b ring.isSome
    -- as coded, a part_node_count with zeros inside and the compressed ring variable
    -- are written on the same dimension: netCDF4 refuses the second one
    if old && (match pnc, ring with
        | some l, some r => l.length != r.flatten.length
        | _, _ => false) then "raised:ValueError" else
    let pncS := match pnc with | none => "-" | some l => showNatList l
    let ringOut := match ring with | none => "-" | some r => showIntList (wRing (padRows r))
    s!"nc={showNatList (wNodeCount b)} pnc={pncS} ring={ringOut} nodes={showNatList (wNodes b)}"


/-! ### `multi`: several geometry fields in one `cfdm.write` -/
section multi
open Cfdm.GeometryWrite

/-- Cells of node values `offset + shift` from the per-cell part sizes. -/
def valueCells (shift : Int) (cells : List (List Nat)) : Cells Int :=
  (idCells 0 cells).map (fun c => c.map (fun p => p.map (fun (n : Nat) => Int.ofNat n + shift)))

/-- `dim/type/cells/ring/coords/rep/nodesets/repset/props/gm` -/
def parseField (s : String) : Option FieldIn :=
  match s.splitOn "/" with
  | [dim, ty, cells, ring, coords, rep, nodesets, repset, props, gm] => do
    let dim ← dim.toNat?
    let ty ← ty.toNat?
    let cells ← parseNested String.toNat? cells
    let ring ← if ring == "-" then some none else (parseNested parseInt? ring).map some
    let coords ← parseNatList coords
    let rep ← parseNatList rep
    let nodesets ← parseNatList nodesets
    let repset ← repset.toNat?
    let props ← props.toNat?
    let gm ← gm.toNat?
    if ty > 2 || cells.isEmpty || coords.isEmpty || cells.any (fun c => c.isEmpty || c.any (· == 0)) then none else
    if coords.length != nodesets.length || coords.any (· > 2) then none else
    if (match ring with | none => false | some r => r.map List.length != cells.map List.length) then none else
    let ncells := cells.length
    let cs := (coords.zip nodesets).map (fun (k, ns) =>
      ({ k := k, cells := valueCells ((1000 * k + 100000 * ns : Nat) : Int) cells, ring := ring,
         rep := if rep.contains k then some ((List.range ncells).map (fun i => ((10 * i + 5 + 100 * repset : Nat) : Int))) else none,
         props := props } : CoordIn))
    some ⟨dim, ty, cs, gm⟩
  | _ => none

structure Num where
  d : List Nat := []
  v : List Nat := []

def numOf (tab : List Nat) (key : Nat) : List Nat × Nat :=
  match tab.findIdx? (· == key) with
  | some i => (tab, i)
  | none => (tab ++ [key], tab.length)

def Num.dim (n : Num) (key : Nat) : Num × String :=
  let (t, i) := numOf n.d key
  ({ n with d := t }, s!"D{i}")

def Num.var (n : Num) (key : Nat) : Num × String :=
  let (t, i) := numOf n.v key
  ({ n with v := t }, s!"V{i}")

def varDim (st : GeometryWrite.St) (v : Nat) : Nat := ((st.vars.getD v ⟨Content.count [], []⟩).dims).headD 0

def typeName (t : Nat) : String := match t with | 0 => "point" | 1 => "line" | _ => "polygon"

def showRole (st : GeometryWrite.St) (n : Num) (name : String) (v : Option Nat) : Num × String :=
  match v with
  | none => (n, s!"{name}=-")
  | some v =>
    let (n, vs) := n.var v
    let (n, ds) := n.dim (varDim st v)
    let vals := match (st.vars.getD v ⟨Content.count [], []⟩).content with
      | Content.count l => showNatList l
      | Content.ring l => showIntList l
      | _ => "?"
    (n, s!"{name}={vs}@{ds}{vals}")

def showField (st : GeometryWrite.St) (n : Num) (f : FieldIn) (o : FieldOut) : Num × String :=
  let size := (f.coords.head?.map (fun c => c.cells.length)).getD 0
  let (n, cd) := n.dim o.cell
  let (n, cs) := (f.coords.zip o.per).foldl (fun (acc : Num × List String) (c, p) =>
      let (n, l) := acc
      let (n, vs) := n.var p.2.1
      let (n, ds) := n.dim (varDim st p.2.1)
      let total := (nodesOf c.cells).length
      let ns := (((nodesOf c.cells).headD 0).toNat) / 100000
      (n, l ++ [s!"{"xyz".toList.getD c.k 'x'}={vs}@{ds}" ++ "{" ++ s!"s{ns}n{total}" ++ "}"])) (n, [])
  let (n, nc) := showRole st n "nc" (some o.container.nodeCount)
  let (n, pnc) := showRole st n "pnc" o.container.partNodeCount
  let (n, ring) := showRole st n "ring" o.container.ring
  let (n, reps) := o.per.foldl (fun (acc : Num × List String) p =>
      let (n, l) := acc
      match p.2.2 with
      | none => (n, l)
      | some cv =>
        let (n, vs) := n.var cv
        (n, l ++ [s!"{"xyz".toList.getD p.1 'x'}:{vs}"])) (n, [])
  let rep := if reps.isEmpty then "-" else String.intercalate "," reps
  (n, String.intercalate " " ([s!"cell={cd}:{size}", s!"type={typeName f.gtype}"] ++ cs ++
      [nc, pnc, ring, s!"rep={rep}", s!"gm={f.gm}", s!"gc=G{o.gc}"]))

def runMulti (kv : KV) : String :=
  match (do
    let nf ← (← kv.get? "nf").toNat?
    let fs ← (List.range nf).mapM (fun i => do parseField (← kv.get? s!"f{i}"))
    let old ← parseOld kv
    some (fs, old)) with
  | none => "bad-op"
  | some (fs, old) =>
    if fs.isEmpty then "bad-op" else
    match writeAll (!old) GeometryWrite.St.empty fs with
    | none => "raised:ValueError"
    | some (st, outs) =>
      let (_, lines) := (fs.zip outs).foldl (fun (acc : Num × List String) (f, o) =>
        let (n, l) := acc
        let (n, s) := showField st n f o
        (n, l ++ [s])) (({} : Num), [])
      String.intercalate " | " lines

end multi

/-! ### `ops`: subspace / insert_dimension / squeeze / transpose, then write -/
section ops
open Cfdm.GeometryOps

def parseCOp (s : String) : Option COp :=
  match s with
  | "ins0" => some (COp.ins 0)
  | "ins1" => some (COp.ins 1)
  | "T" => some COp.tr
  | "sq" => some COp.sq
  | _ => none

def runOps (kv : KV) : String :=
  match (do
    let cells ← parseNested String.toNat? (← kv.get? "cells")
    let ringS ← kv.get? "ring"
    let ring ← if ringS == "-" then some none else (parseNested parseInt? ringS).map some
    let sel ← parseNatList (← kv.get? "sel")
    let cop ← parseListWith parseCOp ',' (← kv.get? "cop")
    some (cells, ring, sel, cop)) with
  | none => "bad-op"
  | some (cells, ring, sel, cop) =>
    if cells.isEmpty || cells.any (fun c => c.isEmpty || c.any (· == 0)) then "bad-op" else
    if sel.isEmpty || sel.any (· ≥ cells.length) then "bad-op" else
    if (match ring with | none => false | some r => r.map List.length != cells.map List.length) then "bad-op" else
    let cs := idCells 0 cells
    let mp := maxLen cs
    let mn := maxLen cs.flatten
    let (b, r) := subspace sel (padW mp mn cs) (ring.map (padRowsW mp))
    let cshape := coordShape none (some (shape3 b)) true
    let ringS := match r with
      | some r => showOpt toString r.flatten
      | none => "-"
    let sh := applyOps cop (initShapes sel.length mp mn ring.isSome)
    let rS := match sh.r with | some l => showNatList l | none => "-"
    let pnc := wPartNodeCount b ring.isSome
    let pncS := match pnc with | none => "-" | some l => showNatList l
    let ringOut := match r with | none => "-" | some r => showIntList (wRing r)
    match cshape with
    | none => "bad-op"
    | some cshape =>
      s!"cshape={showNatList cshape} shape={showNatList (shape3 b)} b={showOpt toString b.flatten.flatten} ring={ringS}"
      ++ s!" | c={showNatList sh.c} b={showNatList sh.b} r={rS}"
      ++ s!" | nc={showNatList (wNodeCount b)} pnc={pncS} ring={ringOut} nodes={showNatList (wNodes b)}"

end ops

def run (sub : String) (kv : KV) : String :=
  match sub with
  | "read" => runRead kv
  | "write" => runWrite kv
  | "multi" => runMulti kv
  | "mread" => runMread kv
  | "ops" => runOps kv
  | _ => "bad-op"

end Cfdm.Driver.C14
