import Cfdm.Driver.Parse
import Cfdm.Model.Ugrid
/-
Line-protocol driver for C15.

A 2-d masked integer array is `[a,b,--;c,d,e]` (rows separated by `;`, `--` is
a masked element).  Streams:

  C15.point  src=faces|edges si=0|1 cd=0|1 n=<nat>|_ conn=<stored array>   → rows=<array>
  C15.cells  cd=0|1 conn=<stored array>                                    → rows=<array>
  C15.cconn  si=0|1 cd=0|1 data=<stored array>                             → rows=<array>
  C15.bounds si=0|1 cd=0|1 conn=<stored array> coords=[ints]               → rows=<array>
  C15.norm   cell=point|cc|face|edge ob=0|1 data=<array>                   → rows=<array>
-/
namespace Cfdm.Driver.C15
open Cfdm.Driver Cfdm.Ugrid

def parseOptWith {α} (f : String → Option α) (s : String) : Option (Option α) :=
  if s == "--" then some none else (f s).map some

def parseMatWith {α} (f : String → Option α) (s : String) : Option (List (List (Option α))) := do
  let inner ← stripBrackets s
  if inner.isEmpty then some [] else
  (inner.splitOn ";").mapM (fun row =>
    if row.isEmpty then some [] else (row.splitOn ",").mapM (parseOptWith f))

def parseMat (s : String) : Option Mat := parseMatWith String.toNat? s
def parseIMat (s : String) : Option IMat := parseMatWith parseInt? s

def showMatWith {α} (f : α → String) (m : List (List (Option α))) : String :=
  "[" ++ String.intercalate ";" (m.map (fun r =>
    String.intercalate "," (r.map (fun o => match o with | none => "--" | some v => f v)))) ++ "]"

def showMat (m : Mat) : String := "rows=" ++ showMatWith (fun (v : Nat) => toString v) m
def showIMat (m : IMat) : String := "rows=" ++ showMatWith (fun (v : Int) => toString v) m

def rectangular {α} (m : List (List α)) : Bool :=
  match m with
  | [] => true
  | r :: t => t.all (fun x => x.length == r.length)

def parseBit (s : String) : Option Nat :=
  if s == "0" then some 0 else if s == "1" then some 1 else none

/-- all unmasked values lie in `[si, si + n)` -/
def wfB (si n : Nat) (m : Mat) : Bool :=
  (vals m).all (fun v => decide (si ≤ v) && decide (v < si + n))

def runPoint (kv : KV) : String :=
  match (do
    let src ← match (← kv.get? "src") with
      | "faces" => some Src.faces | "edges" => some Src.edges | _ => none
    let si ← parseBit (← kv.get? "si")
    let cd ← parseBit (← kv.get? "cd")
    let n ← (let s := (← kv.get? "n"); if s == "_" then some none else s.toNat?.map some)
    let conn ← parseMat (← kv.get? "conn")
    some (src, si, cd, n, conn)) with
  | none => "bad-op"
  | some (src, si, cd, n, stored) =>
    if !rectangular stored then "bad-op" else
    let conn := selectData cd stored
    if !(vals conn).all (fun v => decide (si ≤ v)) then "rejected" else
    showMat (pointTopology src si n conn)

def runCells (kv : KV) : String :=
  match (do
    let cd ← parseBit (← kv.get? "cd")
    let conn ← parseMat (← kv.get? "conn")
    some (cd, conn)) with
  | none => "bad-op"
  | some (cd, stored) =>
    if !rectangular stored then "bad-op" else
    showMat (cellTopology cd stored)

def runCconn (kv : KV) : String :=
  match (do
    let si ← parseBit (← kv.get? "si")
    let cd ← parseBit (← kv.get? "cd")
    let data ← parseMat (← kv.get? "data")
    some (si, cd, data)) with
  | none => "bad-op"
  | some (si, cd, stored) =>
    if !rectangular stored then "bad-op" else
    let data := selectData cd stored
    if !(vals data).all (fun v => decide (si ≤ v)) then "rejected" else
    showMat (cellConnectivity si data)

def runBounds (kv : KV) : String :=
  match (do
    let si ← parseBit (← kv.get? "si")
    let cd ← parseBit (← kv.get? "cd")
    let conn ← parseMat (← kv.get? "conn")
    let coords ← parseIntList (← kv.get? "coords")
    some (si, cd, conn, coords)) with
  | none => "bad-op"
  | some (si, cd, stored, coords) =>
    if !rectangular stored then "bad-op" else
    let conn := selectData cd stored
    if !wfB si coords.length conn then "rejected" else
    showIMat (boundsFromNodes si conn coords)

def runNorm (kv : KV) : String :=
  match (do
    let cell ← kv.get? "cell"
    let ob ← parseBit (← kv.get? "ob")
    let data ← parseIMat (← kv.get? "data")
    some (cell, ob == 1, data)) with
  | none => "bad-op"
  | some (cell, ob, data) =>
    if !rectangular data then "bad-op" else
    if cell == "face" || cell == "edge" then
      -- node ids are non-negative in every generated case
      if !(vals data).all (fun v => decide (0 ≤ v)) then "rejected" else
      showMat (normaliseNodes ob (mapVals Int.toNat data))
    else if cell == "point" || cell == "cc" then
      -- `ids[0]` needs a row, and a masked id is not a cell id
      if data.isEmpty || (firstCol data).length != data.length then "rejected" else
      showIMat (normaliseCellIds ob data)
    else "bad-op"

def run (sub : String) (kv : KV) : String :=
  match sub with
  | "point" => runPoint kv
  | "cells" => runCells kv
  | "cconn" => runCconn kv
  | "bounds" => runBounds kv
  | "norm" => runNorm kv
  | _ => "bad-op"

end Cfdm.Driver.C15
