import Cfdm.Driver.Parse
import Cfdm.Model.Ugrid
import Cfdm.Model.UgridRead
/-
Line-protocol driver for C15.

A 2-d masked integer array is `[a,b,--;c,d,e]` (rows separated by `;`, `--` is
a masked element).  Streams:

  C15.point  src=faces|edges si=0|1 cd=0|1 n=<nat>|_ conn=<stored array>   → rows=<array>
  C15.cells  si=0|1 cd=0|1 conn=<stored array>                             → rows=<array>
  C15.cconn  si=0|1 cd=0|1 data=<stored array>                             → rows=<array>
  C15.bounds si=0|1 cd=0|1 conn=<stored array> coords=[ints]               → rows=<array>
  C15.norm   cell=point|cc|face|edge ob=0|1 data=<array>                   → rows=<array>
  C15.read   what=topo|cconn|bounds loc=node|edge|face nn=<nat> fdim=<dim>|_ edim=<dim>|_ coords=[ints]
             [fn.d=<dim,dim> fn.si=<nat> fn.a=<stored array>] [en.d= en.si= en.a=] [ff.d= ff.si= ff.a=]
             [lis.si=<nat> lis.idx=[nats]] [pos=[nats] [step=<int>]] [norm=0|1]          → rows=<array> | none
     the construct that a data variable on `loc` of the described mesh receives (through the location
     index set if given), then subspaced on the cell axis at the positions `pos` (`step`: the index was a
     slice with that step; absent: a list), then normalised.
-/
namespace Cfdm.Driver.C15
open Cfdm.Driver Cfdm.Ugrid

def parseOptWith {α} (f : String → Option α) (s : String) : Option (Option α) :=
  if s == "--" then some none else (f s).map some

def parseMatWith {α} (f : String → Option α) (s : String) : Option (List (List (Option α))) := do
  let inner ← stripBrackets s
  if inner.isEmpty then some [] else
  (inner.splitOn ";").mapM (fun row =>
    if row.isEmpty then some [] else (row.splitOn ",").mapM (parseOptWith f))

def parseMat (s : String) : Option Mat := parseMatWith String.toNat? s
def parseIMat (s : String) : Option IMat := parseMatWith parseInt? s

def showMatWith {α} (f : α → String) (m : List (List (Option α))) : String :=
  "[" ++ String.intercalate ";" (m.map (fun r =>
    String.intercalate "," (r.map (fun o => match o with | none => "--" | some v => f v)))) ++ "]"

def showMat (m : Mat) : String := "rows=" ++ showMatWith (fun (v : Nat) => toString v) m
def showIMat (m : IMat) : String := "rows=" ++ showMatWith (fun (v : Int) => toString v) m

def rectangular {α} (m : List (List α)) : Bool :=
  match m with
  | [] => true
  | r :: t => t.all (fun x => x.length == r.length)

def parseBit (s : String) : Option Nat :=
  if s == "0" then some 0 else if s == "1" then some 1 else none

/-- all unmasked values lie in `[si, si + n)` -/
def wfB (si n : Nat) (m : Mat) : Bool :=
  (vals m).all (fun v => decide (si ≤ v) && decide (v < si + n))

def runPoint (kv : KV) : String :=
  match (do
    let src ← match (← kv.get? "src") with
      | "faces" => some Src.faces | "edges" => some Src.edges | _ => none
    let si ← parseBit (← kv.get? "si")
    let cd ← parseBit (← kv.get? "cd")
    let n ← (let s := (← kv.get? "n"); if s == "_" then some none else s.toNat?.map some)
    let conn ← parseMat (← kv.get? "conn")
    some (src, si, cd, n, conn)) with
  | none => "bad-op"
  | some (src, si, cd, n, stored) =>
    if !rectangular stored then "bad-op" else
    let conn := selectData cd stored
    if !(vals conn).all (fun v => decide (si ≤ v)) then "rejected" else
    showMat (pointTopology src si n conn)

def runCells (kv : KV) : String :=
  match (do
    let si ← parseBit (← kv.get? "si")
    let cd ← parseBit (← kv.get? "cd")
    let conn ← parseMat (← kv.get? "conn")
    some (si, cd, conn)) with
  | none => "bad-op"
  | some (si, cd, stored) =>
    if !rectangular stored then "bad-op" else
    if !(vals stored).all (fun v => decide (si ≤ v)) then "rejected" else
    showMat (cellTopology si cd stored)

def runCconn (kv : KV) : String :=
  match (do
    let si ← parseBit (← kv.get? "si")
    let cd ← parseBit (← kv.get? "cd")
    let data ← parseMat (← kv.get? "data")
    some (si, cd, data)) with
  | none => "bad-op"
  | some (si, cd, stored) =>
    if !rectangular stored then "bad-op" else
    let data := selectData cd stored
    if !(vals data).all (fun v => decide (si ≤ v)) then "rejected" else
    showMat (cellConnectivity si data)

def runBounds (kv : KV) : String :=
  match (do
    let si ← parseBit (← kv.get? "si")
    let cd ← parseBit (← kv.get? "cd")
    let conn ← parseMat (← kv.get? "conn")
    let coords ← parseIntList (← kv.get? "coords")
    some (si, cd, conn, coords)) with
  | none => "bad-op"
  | some (si, cd, stored, coords) =>
    if !rectangular stored then "bad-op" else
    let conn := selectData cd stored
    if !wfB si coords.length conn then "rejected" else
    showIMat (boundsFromNodes si conn coords)

def runNorm (kv : KV) : String :=
  match (do
    let cell ← kv.get? "cell"
    let ob ← parseBit (← kv.get? "ob")
    let data ← parseIMat (← kv.get? "data")
    some (cell, ob == 1, data)) with
  | none => "bad-op"
  | some (cell, ob, data) =>
    if !rectangular data then "bad-op" else
    if cell == "face" || cell == "edge" then
      -- node ids are non-negative in every generated case
      if !(vals data).all (fun v => decide (0 ≤ v)) then "rejected" else
      showMat (normaliseNodes ob (mapVals Int.toNat data))
    else if cell == "point" || cell == "cc" then
      -- `ids[0]` needs a row, and a masked id is not a cell id
      if data.isEmpty || (firstCol data).length != data.length then "rejected" else
      showIMat (normaliseCellIds ob data)
    else "bad-op"

/-! ### C15.read -/
open Cfdm.UgridRead in
def parseConnVar (kv : KV) (pre : String) : Option (Option ConnVar) :=
  match kv.get? (pre ++ ".d"), kv.get? (pre ++ ".si"), kv.get? (pre ++ ".a") with
  | none, none, none => some none
  | some d, some si, some a => do
    let si ← si.toNat?
    let a ← parseMat a
    if !rectangular a then none else
    some (some { dims := d.splitOn ",", si := si, data := a })
  | _, _, _ => none

def parseOptName (s : String) : Option String := if s == "_" then none else some s

/-- ids in the first column unmasked (hypothesis of the normalise theorems) -/
def idsOk (d : IMat) : Bool := !d.isEmpty && (firstCol d).length == d.length

open Cfdm.UgridRead in
def runRead (kv : KV) : String :=
  match (do
    let what ← kv.get? "what"
    let loc ← match (← kv.get? "loc") with
      | "node" => some Loc.node | "edge" => some Loc.edge | "face" => some Loc.face | _ => none
    let nn ← (← kv.get? "nn").toNat?
    let fdim := parseOptName (← kv.get? "fdim")
    let edim := parseOptName (← kv.get? "edim")
    let coords ← parseIntList (← kv.get? "coords")
    let fn ← parseConnVar kv "fn"
    let en ← parseConnVar kv "en"
    let ff ← parseConnVar kv "ff"
    let lis ← match kv.get? "lis.si", kv.get? "lis.idx" with
      | none, none => some none
      | some si, some idx => do
        let si ← si.toNat?
        let idx ← parseNatList idx
        some (some ({ loc := loc, si := si, idx := idx } : Lis))
      | _, _ => none
    let pos ← match kv.get? "pos" with
      | none => some none
      | some p => (parseNatList p).map some
    let step ← match kv.get? "step" with
      | none => some none
      | some t => (parseInt? t).map some
    let norm ← match kv.get? "norm" with
      | none => some none
      | some b => (parseBit b).map some
    let m : Mesh := { nodeDim := "nnode", nNodes := nn, faceDim := fdim, edgeDim := edim,
                      faceNode := fn, edgeNode := en, faceFace := ff, coords := coords }
    some (what, loc, m, lis, pos, step, norm)) with
  | none => "bad-op"
  | some (what, loc, m, lis, pos, step, norm) =>
    -- stored values below the start index, or node ids beyond the coordinates, are outside the streams
    let okVar := fun (o : Option ConnVar) => match o with
      | none => true
      | some v => (vals v.data).all (fun x => decide (v.si ≤ x))
    if !(okVar m.faceNode && okVar m.edgeNode && okVar m.faceFace) then "rejected" else
    let okIdx := fun (o : Option ConnVar) => match o with
      | none => true
      | some v => (vals v.data).all (fun x => decide (x < v.si + m.coords.length))
    if what == "bounds" && !(okIdx (nodeConn m loc)) then "rejected" else
    let c := match lis with
      | none => readLocation m loc
      | some l => readLis m l
    let c := match pos with
      | none => c
      | some p => c.takeIx step p
    if what == "bounds" then
      match c.bounds with
      | none => "none"
      | some b => if norm.isSome then "bad-op" else showIMat b
    else
      let arr := if what == "topo" then some c.topology else if what == "cconn" then some c.cconn else none
      match arr with
      | none => "bad-op"
      | some none => "none"
      | some (some a) =>
        match norm with
        | none => showMat a
        | some ob =>
          if what == "topo" && loc != Loc.node then showMat (normaliseNodes (ob == 1) a)
          else
            let d : IMat := mapVals (fun (v : Nat) => (v : Int)) a
            if !idsOk d then "rejected" else showIMat (normaliseCellIds (ob == 1) d)

def run (sub : String) (kv : KV) : String :=
  match sub with
  | "point" => runPoint kv
  | "cells" => runCells kv
  | "cconn" => runCconn kv
  | "bounds" => runBounds kv
  | "norm" => runNorm kv
  | "read" => runRead kv
  | _ => "bad-op"

end Cfdm.Driver.C15
