import Cfdm.Driver.Parse
import Cfdm.Driver.C03
import Cfdm.Driver.C20
import Cfdm.Driver.C14
import Cfdm.Driver.C15
import Cfdm.Driver.C06
import Cfdm.Driver.C05
import Cfdm.Driver.C18
import Cfdm.Driver.C16
import Cfdm.Driver.C19
import Cfdm.Driver.C07
import Cfdm.Driver.C08
import Cfdm.Driver.C02
import Cfdm.Driver.C04
import Cfdm.Driver.C11
import Cfdm.Driver.C10
import Cfdm.Driver.C12
import Cfdm.Driver.C17
import Cfdm.Driver.C13
import Cfdm.Driver.C01
import Cfdm.Driver.C09
open Cfdm.Driver

def step (line : String) : String :=
  match (line.trimAscii.toString.splitOn " ").filter (· ≠ "") with
  | [] => "bad-op"
  | hd :: rest =>
    match parseKV rest with
    | none => "bad-op"
    | some kv =>
      match hd.splitOn "." with
      | ["C03", sub] => C03.run sub kv
      | ["C20", sub] => C20.run sub kv
      | ["C14", sub] => C14.run sub kv
      | ["C15", sub] => C15.run sub kv
      | ["C06", sub] => C06.run sub kv
      | ["C05", sub] => C05.run sub kv
      | ["C18", sub] => C18.run sub kv
      | ["C16", sub] => C16.run sub kv
      | ["C19", sub] => C19.run sub kv
      | ["C07", sub] => C07.run sub kv
      | ["C08", sub] => C08.run sub kv
      | ["C02", sub] => C02.run sub kv
      | ["C04", sub] => C04.run sub kv
      | ["C11", sub] => C11.run sub kv
      | ["C10", sub] => C10.run sub kv
      | ["C12", sub] => C12.run sub kv
      | ["C17", sub] => C17.run sub kv
      | ["C13", sub] => C13.run sub kv
      | ["C01", sub] => C01.run sub kv
      | ["C09", sub] => C09.run sub kv
      | _ => "bad-op"

partial def loop (h : IO.FS.Stream) : IO Unit := do
  let line ← h.getLine
  if line.isEmpty then return ()
  IO.println (step line)
  loop h

def main : IO Unit := do loop (← IO.getStdin)
