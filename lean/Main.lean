import Cfdm.Driver.Parse
import Cfdm.Driver.C03
open Cfdm.Driver

def step (line : String) : String :=
  match (line.trimAscii.toString.splitOn " ").filter (· ≠ "") with
  | [] => "bad-op"
  | hd :: rest =>
    match parseKV rest with
    | none => "bad-op"
    | some kv =>
      match hd.splitOn "." with
      | ["C03", sub] => C03.run sub kv
      | _ => "bad-op"

partial def loop (h : IO.FS.Stream) : IO Unit := do
  let line ← h.getLine
  if line.isEmpty then return ()
  IO.println (step line)
  loop h

def main : IO Unit := do loop (← IO.getStdin)
