import Cfdm.Model.PySlice
import Cfdm.Model.Arr
import Cfdm.Model.Indexing
import Cfdm.Props.C03
