import Cfdm.Model.PySlice
import Cfdm.Model.Arr
import Cfdm.Model.Indexing
import Cfdm.Props.C03
import Cfdm.Model.Settings
import Cfdm.Props.C20
import Cfdm.Props.C14
import Cfdm.Props.C15
